"""Supervisor for the runtime-monitoring checks (DESIGN.md §2, §4).

Owns: building workers from /repo's current tree, sharding cases over worker
processes, watchdogs, crash attribution (M2), journal aggregation, matching
violations against known_findings.jsonl, writing the evidence file, and the
exit status / output lines of §4.1.
"""
import hashlib
import json
import os
import shutil
import signal
import subprocess
import sys
import time

VERIF = os.path.dirname(os.path.dirname(os.path.abspath(__file__)))
REPO = os.environ.get("VERIF_REPO", "/repo")
HARNESS = os.environ.get("VERIF_HARNESS", os.path.join(VERIF, "harness"))
TARGET_BASE = os.environ.get("VERIF_TARGET_BASE", os.path.join(VERIF, "target"))
GUARD = "warcraft_rs_verif"
NCPU = max(1, min(16, os.cpu_count() or 1))

EXIT_HELD, EXIT_VIOLATION, EXIT_BROKEN = 0, 1, 2


class Broken(Exception):
    pass


def log(*a):
    print(*a, file=sys.stderr, flush=True)


def cargo_env(extra_rustflags="", target_dir=None):
    env = dict(os.environ)
    env["CARGO_NET_OFFLINE"] = "true"
    env["CARGO_TERM_COLOR"] = "never"
    flags = f"--cfg {GUARD} --check-cfg=cfg({GUARD})"
    if extra_rustflags:
        flags += " " + extra_rustflags
    env["RUSTFLAGS"] = flags
    env["CARGO_TARGET_DIR"] = target_dir or TARGET_BASE
    env.pop("RUSTC_WRAPPER", None)
    return env


def build(pkg, bin_name, flavor="native", quiet=True, features=None):
    """Build one worker binary against /repo's current working tree. Returns its path."""
    t0 = time.time()
    if flavor == "native":
        env = cargo_env()
        cmd = ["cargo", "build", "--release", "--offline", "-p", pkg, "--bin", bin_name]
        out = os.path.join(env["CARGO_TARGET_DIR"], "release", bin_name)
    elif flavor == "asan":
        env = cargo_env("-Zsanitizer=address -Cforce-frame-pointers=yes", TARGET_BASE + "-asan")
        cmd = ["cargo", "+nightly", "build", "--release", "--offline", "--target", "x86_64-unknown-linux-gnu", "-p", pkg, "--bin", bin_name]
        out = os.path.join(env["CARGO_TARGET_DIR"], "x86_64-unknown-linux-gnu", "release", bin_name)
    elif flavor == "checked":
        # release optimisation with the arithmetic-overflow checks and debug assertions of a dev/test build
        env = cargo_env("-Coverflow-checks=on -Cdebug-assertions=on", TARGET_BASE + "-checked")
        cmd = ["cargo", "build", "--release", "--offline", "-p", pkg, "--bin", bin_name]
        out = os.path.join(env["CARGO_TARGET_DIR"], "release", bin_name)
    elif flavor == "tsan":
        env = cargo_env("-Zsanitizer=thread", TARGET_BASE + "-tsan")
        cmd = ["cargo", "+nightly", "build", "--release", "--offline", "-Zbuild-std", "--target", "x86_64-unknown-linux-gnu", "-p", pkg, "--bin", bin_name]
        out = os.path.join(env["CARGO_TARGET_DIR"], "x86_64-unknown-linux-gnu", "release", bin_name)
    else:
        raise Broken(f"unknown flavor {flavor}")
    if features:
        cmd += ["--features", features]
    p = subprocess.run(cmd, cwd=HARNESS, env=env, stdout=subprocess.PIPE, stderr=subprocess.STDOUT, text=True)
    if p.returncode != 0:
        tail = "\n".join(p.stdout.splitlines()[-60:])
        raise Broken(f"build of {pkg}/{bin_name} ({flavor}) failed:\n{tail}")
    if not quiet:
        log(f"[build] {pkg}/{bin_name} {flavor} {time.time()-t0:.1f}s")
    return out


def build_cli():
    """Debug build of the warcraft-rs CLI inside /repo (no extra flags; deps cached)."""
    env = dict(os.environ)
    env["CARGO_NET_OFFLINE"] = "true"
    env.pop("RUSTFLAGS", None)
    p = subprocess.run(["cargo", "build", "--offline", "-p", "warcraft-rs"], cwd=REPO, env=env,
                       stdout=subprocess.PIPE, stderr=subprocess.STDOUT, text=True)
    if p.returncode != 0:
        tail = "\n".join(p.stdout.splitlines()[-60:])
        raise Broken(f"CLI build failed:\n{tail}")
    return os.path.join(REPO, "target", "debug", "warcraft-rs")


def scratch_dir(prop):
    base = os.path.join(VERIF, "scratch")
    os.makedirs(base, exist_ok=True)
    d = os.path.join(base, f"{prop}-{os.getpid()}")
    shutil.rmtree(d, ignore_errors=True)
    os.makedirs(d)
    return d


class Result:
    """Aggregated observations of one check run."""

    def __init__(self, prop):
        self.prop = prop
        self.cases = 0
        self.verdicts = {"held": 0, "viol": 0, "inconc": 0, "skip": 0}
        self.classes = set()          # distinct classes among non-trivial, executed cases
        self.counters = {}
        self.samples = []
        self.violations = {}          # sig -> first witness dict
        self.viol_counts = {}         # sig -> occurrences
        self.inconclusive_reasons = {}
        self.extras = {}
        self.crashes = 0
        self.notes = []

    def add_counter(self, k, n):
        self.counters[k] = self.counters.get(k, 0) + n

    def add_violation(self, sig, what, detail=None, replay=None):
        self.viol_counts[sig] = self.viol_counts.get(sig, 0) + 1
        if sig not in self.violations:
            self.violations[sig] = {"sig": sig, "what": what, "detail": detail, "replay": replay}

    def add_inconclusive(self, why):
        self.verdicts["inconc"] += 1
        self.inconclusive_reasons[why] = self.inconclusive_reasons.get(why, 0) + 1

    def absorb_journal(self, path, replay_base):
        """Parse one worker journal. Returns (open_case_index or None, done_flag, last_closed_idx)."""
        open_idx, done, last = None, False, None
        if not os.path.exists(path):
            return None, False, None
        with open(path, "r", errors="replace") as f:
            for line in f:
                line = line.strip()
                if not line:
                    continue
                try:
                    ev = json.loads(line)
                except Exception:
                    continue  # torn last line of a crashed worker
                e = ev.get("e")
                if e == "B":
                    open_idx = ev["i"]
                elif e == "E":
                    open_idx = None
                    last = ev["i"]
                    self.cases += 1
                    v = ev.get("v", "held")
                    self.verdicts[v] = self.verdicts.get(v, 0) + 1
                    if ev.get("nt", True) and v in ("held", "viol"):
                        self.classes.add(ev.get("class", ""))
                    for k, n in (ev.get("cnt") or {}).items():
                        self.add_counter(k, n)
                    if v == "inconc":
                        w = ev.get("why", "?")
                        self.inconclusive_reasons[w] = self.inconclusive_reasons.get(w, 0) + 1
                    for vi in ev.get("viol") or []:
                        rp = dict(replay_base)
                        rp.update({"only": ev["i"], "class": ev.get("class"), "desc": ev.get("desc")})
                        self.add_violation(vi["sig"], vi.get("what", ""), vi.get("detail"), rp)
                elif e == "S":
                    if len(self.samples) < 6:
                        self.samples.append(ev.get("sample"))
                elif e == "X":
                    k = ev.get("k")
                    v = ev.get("v")
                    cur = self.extras.get(k)
                    if isinstance(v, list):
                        s = set(map(json.dumps, cur or []))
                        s.update(map(json.dumps, v))
                        self.extras[k] = [json.loads(x) for x in sorted(s)]
                    elif isinstance(v, (int, float)) and isinstance(cur, (int, float)):
                        self.extras[k] = max(cur, v)
                    else:
                        self.extras[k] = v
                elif e == "D":
                    done = True
        return open_idx, done, last


def _gdb_stacks(pid):
    try:
        p = subprocess.run(["gdb", "-p", str(pid), "-batch", "-ex", "thread apply all bt 12"],
                           stdout=subprocess.PIPE, stderr=subprocess.DEVNULL, text=True, timeout=30)
        keep = [l for l in p.stdout.splitlines() if l.startswith("#") or l.startswith("Thread")]
        return keep[:80]
    except Exception as ex:  # noqa
        return [f"gdb failed: {ex}"]


def classify_exit(rc, stderr_tail):
    """M2: name the abort class from the exit status and stderr banner."""
    if rc is None:
        return "timeout"
    if rc >= 0:
        if rc == 101:
            return "panic-exit"
        if rc == 66:
            return "tsan-report"
        return f"exit-{rc}"
    sig = -rc
    name = {signal.SIGSEGV: "SIGSEGV", signal.SIGABRT: "SIGABRT", signal.SIGBUS: "SIGBUS", signal.SIGILL: "SIGILL",
            signal.SIGKILL: "SIGKILL", signal.SIGFPE: "SIGFPE"}.get(sig, f"SIG{sig}")
    t = stderr_tail
    if "stack overflow" in t or "overflowed its stack" in t:
        return "stack-overflow"
    if "memory allocation of" in t:
        return "alloc-abort"
    if "capacity overflow" in t:
        return "capacity-overflow-abort"
    if "AddressSanitizer" in t:
        return "asan-report"
    if "panic in a function that cannot unwind" in t or "panic in a destructor" in t or "cannot unwind" in t:
        return "abort-nounwind-panic"
    return name


def run_workers(res, binpath, base_args, tier, seed, scratch, nshards=NCPU, case_timeout=60.0,
                crash_is_violation=True, env_extra=None, total_timeout=3600.0, confirm_hang=True,
                max_restarts=400, label=""):
    """Run `nshards` worker processes over the case space; restart after crashes.

    A crash or confirmed hang is attributed to the open case (BEGIN without END).
    """
    prop = res.prop
    env = dict(os.environ)
    env.setdefault("RUST_BACKTRACE", "0")
    env["VERIF_SEED"] = str(seed)
    if env_extra:
        env.update(env_extra)
    replay_base = {"property": prop, "tier": tier, "seed": seed, "bin": os.path.basename(binpath), "args": base_args}

    class Shard:
        pass

    shards = []
    for s in range(nshards):
        sh = Shard()
        sh.n = s
        sh.start = 0
        sh.gen = 0
        sh.proc = None
        sh.restarts = 0
        sh.finished = False
        shards.append(sh)

    def launch(sh):
        sh.journal = os.path.join(scratch, f"journal-{label}{sh.n}-{sh.gen}.jsonl")
        sh.errpath = os.path.join(scratch, f"stderr-{label}{sh.n}-{sh.gen}.txt")
        sh.wdir = os.path.join(scratch, f"w{label}{sh.n}")
        os.makedirs(sh.wdir, exist_ok=True)
        cmd = [binpath, "--tier", tier, "--seed", str(seed), "--shard", f"{sh.n}/{nshards}", "--start", str(sh.start),
               "--out", sh.journal, "--scratch", sh.wdir] + list(base_args)
        sh.err = open(sh.errpath, "w")
        sh.proc = subprocess.Popen(cmd, stdout=subprocess.DEVNULL, stderr=sh.err, env=env, cwd=sh.wdir)
        sh.last_size = -1
        sh.last_progress = time.time()

    for sh in shards:
        launch(sh)
    t_start = time.time()
    hang_confirmed = {}

    def tail(path, n=4000):
        try:
            with open(path, "r", errors="replace") as f:
                return f.read()[-n:]
        except Exception:
            return ""

    while True:
        alive = False
        for sh in shards:
            if sh.finished:
                continue
            rc = sh.proc.poll()
            timed_out = False
            stacks = None
            if rc is None:
                alive = True
                try:
                    sz = os.path.getsize(sh.journal)
                except OSError:
                    sz = 0
                now = time.time()
                if sz != sh.last_size:
                    sh.last_size = sz
                    sh.last_progress = now
                    continue
                elif now - sh.last_progress > case_timeout:
                    stacks = _gdb_stacks(sh.proc.pid)
                    sh.proc.kill()
                    sh.proc.wait()
                    timed_out = True
                    rc = None
                else:
                    continue
            sh.err.close()
            open_idx, done, last = res.absorb_journal(sh.journal, replay_base)
            if done and not timed_out and rc == 0:
                sh.finished = True
                continue
            # abnormal end
            kind = "timeout" if timed_out else classify_exit(rc, tail(sh.errpath))
            if open_idx is None:
                # died between cases or before the first: harness problem, not a verdict
                if timed_out and done:
                    sh.finished = True
                    continue
                res.notes.append(f"worker shard {sh.n} ended ({kind}) outside any case: {tail(sh.errpath, 600)}")
                res.add_inconclusive(f"worker-ended-outside-case:{kind}")
                sh.finished = True
                continue
            res.crashes += 1
            rp = dict(replay_base)
            rp.update({"only": open_idx})
            if timed_out:
                confirmed = False
                site0 = hang_site(stacks)
                if confirm_hang and hang_confirmed.get(site0, 0) >= 2:
                    # this very site was already confirmed twice in single-case re-runs with 4x the budget: count it
                    confirmed = True
                elif confirm_hang:
                    confirmed, stacks2 = confirm_single(binpath, base_args, tier, seed, open_idx, scratch, case_timeout * 4, env)
                    stacks = stacks2 or stacks
                if confirmed:
                    hang_confirmed[site0] = hang_confirmed.get(site0, 0) + 1
                    hang_confirmed["*"] = hang_confirmed.get("*", 0) + 1
                if confirmed:
                    res.cases += 1
                    res.verdicts["viol"] += 1
                    res.add_violation(f"hang|{hang_site(stacks)}", f"case {open_idx} did not finish within the confirmed budget", {"stacks": stacks}, rp)
                else:
                    res.cases += 1
                    res.add_inconclusive("watchdog-fired-once")
            else:
                res.cases += 1
                if crash_is_violation:
                    res.verdicts["viol"] += 1
                    res.add_violation(f"crash|{kind}|{crash_site(tail(sh.errpath))}",
                                      f"worker died ({kind}) in case {open_idx}", {"stderr": tail(sh.errpath, 1500)}, rp)
                else:
                    res.add_inconclusive(f"worker-crash:{kind}")
            sh.restarts += 1
            if hang_confirmed.get("*", 0) >= 8:
                # a storm of confirmed hangs: the verdict is established; do not spend the rest of the budget waiting on more
                res.notes.append(f"shard {sh.n}: stopped after {hang_confirmed['*']} confirmed hangs in this run; remaining cases of the shard not run")
                res.add_inconclusive("stopped-after-confirmed-hangs")
                sh.finished = True
                continue
            if sh.restarts > max_restarts:
                res.notes.append(f"shard {sh.n}: too many restarts, remaining cases not run")
                res.add_inconclusive("too-many-restarts")
                sh.finished = True
                continue
            # next case of this shard after open_idx
            sh.start = open_idx + 1
            sh.gen += 1
            launch(sh)
            alive = True
        if not alive and all(s.finished for s in shards):
            break
        if time.time() - t_start > total_timeout:
            for sh in shards:
                if not sh.finished and sh.proc and sh.proc.poll() is None:
                    sh.proc.kill()
                    sh.proc.wait()
                    sh.err.close()
                    res.absorb_journal(sh.journal, replay_base)
                    sh.finished = True
            res.add_inconclusive("total-timeout")
            res.notes.append("total timeout reached; remaining cases not run")
            break
        time.sleep(0.05)


CRATE_DIRS = ["file-formats/archives/wow-mpq", "file-formats/graphics/wow-m2", "file-formats/graphics/wow-wmo", "file-formats/graphics/wow-blp",
              "file-formats/world-data/wow-adt", "file-formats/world-data/wow-wdt", "file-formats/world-data/wow-wdl", "file-formats/database/wow-cdbc",
              "ffi/storm-ffi", "warcraft-rs"]


def hang_site(stacks):
    """First frame of a gdb stack that lies in the code under test: '<fn>@<crate>/<file>' (no line numbers).
    gdb prints frames as '#1  0x… in decompress () at src/compression/algorithms/pkware.rs:46' (path relative to the crate)."""
    import re
    for l in stacks or []:
        m = re.match(r"#\d+\s+(?:0x[0-9a-f]+ in )?(.+?) \(.*\) at (.+?):\d+", l)
        if not m:
            continue
        fn, path = m.group(1), m.group(2)
        fn = re.sub(r"<.*", "", fn)
        fn = re.sub(r"\{closure[^}]*\}", "{closure}", fn)
        if "/registry/src/" in path or path.startswith("/rustc/"):
            continue
        for cd in CRATE_DIRS:
            full = path if os.path.isabs(path) else os.path.join(REPO, cd, path)
            if os.path.isabs(path):
                if ("/" + cd + "/") in path and os.path.exists(path):
                    return f"{fn}@{os.path.basename(cd)}/{path.split('/' + cd + '/', 1)[1]}"
            elif os.path.exists(full):
                return f"{fn}@{os.path.basename(cd)}/{path}"
    return "unknown"


def crash_site(stderr_tail):
    for l in reversed(stderr_tail.splitlines()):
        l = l.strip()
        if l.startswith("memory allocation of"):
            return "alloc"
        if "has overflowed its stack" in l:
            return "stack"
        if l.startswith("thread '") and "panicked at" in l:
            loc = l.split("panicked at", 1)[1].strip().rstrip(":")
            return loc.rsplit(":", 2)[0][-60:]
    return "?"


def confirm_single(binpath, base_args, tier, seed, idx, scratch, budget, env):
    j = os.path.join(scratch, f"confirm-{idx}.jsonl")
    wd = os.path.join(scratch, f"confirm-{idx}")
    os.makedirs(wd, exist_ok=True)
    cmd = [binpath, "--tier", tier, "--seed", str(seed), "--only", str(idx), "--out", j, "--scratch", wd] + list(base_args)
    p = subprocess.Popen(cmd, stdout=subprocess.DEVNULL, stderr=subprocess.DEVNULL, env=env, cwd=wd)
    try:
        p.wait(timeout=budget)
        return False, None
    except subprocess.TimeoutExpired:
        stacks = _gdb_stacks(p.pid)
        p.kill()
        p.wait()
        return True, stacks


# ------------------------------------------------------------------ findings

def load_known():
    """known_findings.jsonl (+ known_findings.d/*.jsonl while checks are being developed); never written at run time."""
    import glob
    paths = [os.path.join(VERIF, "known_findings.jsonl")] + sorted(glob.glob(os.path.join(VERIF, "known_findings.d", "*.jsonl")))
    out = []
    for path in paths:
        if os.path.exists(path):
            with open(path) as f:
                for line in f:
                    line = line.strip()
                    if line and not line.startswith("#"):
                        out.append(json.loads(line))
    return out


def finish(res, tier, seed, level, rule, t0, assumptions=None, min_cases=1, extra_cov=None, exhaustive=False):
    """Match violations to known findings, write evidence, print verdict lines, exit."""
    prop = res.prop
    known = [k for k in load_known() if k.get("property") == prop and k.get("status") == "known"]
    known_sigs = {k["signature"]: k for k in known}
    new, seen_known = [], []
    for sig, w in res.violations.items():
        if sig in known_sigs:
            seen_known.append((known_sigs[sig], res.viol_counts[sig]))
        else:
            new.append(w)
    os.makedirs(os.path.join(VERIF, "replays"), exist_ok=True)
    lines = []
    for k, n in seen_known:
        lines.append(f"KNOWN-FINDING: property={prop} {k['what']} [sig={k['signature']}] (seen {n}x)")
    for w in new:
        h = hashlib.sha1(w["sig"].encode()).hexdigest()[:12]
        rp = os.path.join(VERIF, "replays", f"{prop}-{h}.json")
        with open(rp, "w") as f:
            json.dump({"signature": w["sig"], "what": w["what"], "detail": w["detail"], "replay": w["replay"]}, f, indent=1, default=str)
        lines.append(f"VIOLATION property={prop} replay={rp}")
        lines.append(f"  signature: {w['sig']}")
        lines.append(f"  what: {str(w['what'])[:300]}")
    distinct = len(res.classes)
    cov = {
        "evaluations": res.cases,
        "distinct_nontrivial": distinct,
        "rule": rule,
        "samples": res.samples[:6],
        "verdicts": res.verdicts,
        "counters": dict(sorted(res.counters.items())),
        "inconclusive_reasons": res.inconclusive_reasons,
        "known_findings_seen": [{"signature": k["signature"], "count": n} for k, n in seen_known],
        "known_not_reproduced": [k["signature"] for k in known if k["signature"] not in res.violations],
        "new_violation_signatures": [w["sig"] for w in new],
        "worker_crashes_attributed": res.crashes,
        "exhaustive": bool(exhaustive),
    }
    if res.extras:
        cov["extras"] = res.extras
    if res.notes:
        cov["notes"] = res.notes[:20]
    if extra_cov:
        cov.update(extra_cov)
    ev = {
        "property_id": prop, "tier": tier, "seed": int(seed), "level": level, "coverage": cov,
        "assumptions": assumptions or [], "wall_s": round(time.time() - t0, 2), "violations": len(new),
    }
    broken = None
    if res.cases < min_cases or not res.samples or distinct < 2:
        broken = f"too little observed: cases={res.cases} distinct={distinct} samples={len(res.samples)}"
    # (runs against a scratch copy of the code under test - tools/try_mutant.py - keep their evidence to themselves)
    evdir = os.environ.get("VERIF_EVIDENCE_DIR") or os.path.join(VERIF, "evidence")
    os.makedirs(evdir, exist_ok=True)
    with open(os.path.join(evdir, f"{prop}.json"), "w") as f:
        json.dump(ev, f, indent=1, default=str)
    for l in lines:
        print(l)
    if res.verdicts.get("inconc"):
        print(f"INCONCLUSIVE property={prop} cases={res.verdicts['inconc']} reasons={json.dumps(res.inconclusive_reasons)}")
    if new:
        print(f"FAILED property={prop} new_violation_signatures={len(new)} cases={res.cases}")
        sys.stdout.flush()
        return EXIT_VIOLATION
    if broken:
        log(f"BROKEN property={prop} {broken}")
        return EXIT_BROKEN
    print(f"HELD property={prop} tier={tier} seed={seed} cases={res.cases} distinct={distinct} "
          f"known_findings={len(seen_known)} wall={time.time()-t0:.1f}s")
    sys.stdout.flush()
    return EXIT_HELD


# ------------------------------------------------------------------ helpers

def simple_check(prop, pkg, bin_name, tier, seed, scratch, t0, level, rule, assumptions=None, args=None,
                 nshards=NCPU, case_timeout=120.0, total_timeout=7200.0, min_cases=1, exhaustive=False,
                 extra_cov=None, post=None, crash_is_violation=True):
    """Build one native worker, run it sharded, aggregate, finish."""
    binpath = build(pkg, bin_name)
    res = Result(prop)
    run_workers(res, binpath, args or [], tier, seed, scratch, nshards=nshards, case_timeout=case_timeout,
                total_timeout=total_timeout, crash_is_violation=crash_is_violation)
    if post:
        post(res)
    return finish(res, tier, seed, level, rule, t0, assumptions=assumptions, min_cases=min_cases,
                  extra_cov=extra_cov, exhaustive=exhaustive)


def generic_replay(rp, scratch, pkg, features=None):
    """Re-execute exactly the case named in a replay file and print what it reports."""
    r = rp["replay"]
    binpath = build(pkg, r["bin"], flavor=r.get("flavor", "native"), features=features)
    j = os.path.join(scratch, "replay.jsonl")
    cmd = [binpath, "--tier", r["tier"], "--seed", str(r["seed"]), "--only", str(r["only"]), "--out", j, "--scratch", scratch] + list(r.get("args") or [])
    p = subprocess.run(cmd, cwd=scratch, stdout=subprocess.DEVNULL, stderr=subprocess.PIPE, text=True)
    found = False
    if os.path.exists(j):
        for line in open(j):
            try:
                ev = json.loads(line)
            except Exception:
                continue
            if ev.get("e") == "E":
                for v in ev.get("viol") or []:
                    print(f"REPLAY violation sig={v['sig']} what={v['what'][:400]}")
                    if v["sig"] == rp["signature"]:
                        found = True
                if not ev.get("viol"):
                    print(f"REPLAY case {ev['i']} verdict={ev['v']}")
    if p.returncode != 0:
        print(f"REPLAY worker exit={p.returncode} stderr tail: {p.stderr[-800:]}")
        found = found or rp["signature"].startswith("crash|")
    if found:
        print(f"VIOLATION property={r['property']} replay=(reproduced) signature={rp['signature']}")
        return EXIT_VIOLATION
    print("REPLAY did not reproduce the recorded signature")
    return EXIT_HELD
