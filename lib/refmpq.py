"""Independent MPQ reader + writer (DESIGN.md §3 M6), written from the published format
(The MoPaQ Archive Format / Zezula's MPQ description). Pure stdlib. Shares no code, tables
or constants with /repo: the crypt table is regenerated from its seed here.

Subset: V1/V2 headers, classic hash/block tables, single-unit and sectored files, per-sector
compression byte with zlib (0x02) / bzip2 (0x10), file encryption incl. FIX_KEY, optional
user-data prefix. Also exposes region maps (which bytes of an archive hold what) and a raw
entry writer used to plant hostile names and PATCH_FILE entries for other checks.
"""
import bz2
import struct
import zlib

MPQ_MAGIC = b"MPQ\x1a"
MPQ_USERDATA = b"MPQ\x1b"

FLAG_IMPLODE = 0x00000100
FLAG_COMPRESS = 0x00000200
FLAG_ENCRYPTED = 0x00010000
FLAG_FIX_KEY = 0x00020000
FLAG_PATCH_FILE = 0x00100000
FLAG_SINGLE_UNIT = 0x01000000
FLAG_DELETE_MARKER = 0x02000000
FLAG_SECTOR_CRC = 0x04000000
FLAG_EXISTS = 0x80000000

HASH_NEVER_USED = 0xFFFFFFFF
HASH_DELETED = 0xFFFFFFFE

M32 = 0xFFFFFFFF


def _make_crypt_table():
    t = [0] * 0x500
    seed = 0x00100001
    for i in range(0x100):
        j = i
        for _ in range(5):
            seed = (seed * 125 + 3) % 0x2AAAAB
            hi = (seed & 0xFFFF) << 16
            seed = (seed * 125 + 3) % 0x2AAAAB
            lo = seed & 0xFFFF
            t[j] = hi | lo
            j += 0x100
    return t


CRYPT = _make_crypt_table()

HASH_OFFSET, HASH_A, HASH_B, HASH_KEY = 0x000, 0x100, 0x200, 0x300


def fold(b):
    if b == 0x2F:
        b = 0x5C
    if 0x61 <= b <= 0x7A:
        b -= 0x20
    return b


def hash_string(name, htype):
    if isinstance(name, str):
        name = name.encode("utf-8")
    s1, s2 = 0x7FED7FED, 0xEEEEEEEE
    for raw in name:
        ch = fold(raw)
        s1 = CRYPT[htype + ch] ^ ((s1 + s2) & M32)
        s2 = (ch + s1 + s2 + ((s2 << 5) & M32) + 3) & M32
    return s1


def encrypt_dwords(vals, key):
    seed = 0xEEEEEEEE
    out = []
    for v in vals:
        seed = (seed + CRYPT[0x400 + (key & 0xFF)]) & M32
        c = v ^ ((key + seed) & M32)
        out.append(c)
        key = ((((~key) & M32) << 0x15) + 0x11111111) & M32 | (key >> 0x0B)
        seed = (v + seed + ((seed << 5) & M32) + 3) & M32
    return out


def decrypt_dwords(vals, key):
    seed = 0xEEEEEEEE
    out = []
    for c in vals:
        seed = (seed + CRYPT[0x400 + (key & 0xFF)]) & M32
        v = c ^ ((key + seed) & M32)
        out.append(v)
        key = ((((~key) & M32) << 0x15) + 0x11111111) & M32 | (key >> 0x0B)
        seed = (v + seed + ((seed << 5) & M32) + 3) & M32
    return out


def _crypt_bytes(data, key, fn, tail="plain"):
    """Whole dwords only; the trailing len%4 bytes are left untouched (format rule).
    tail="padded-dword" models a known deviation (used only to *diagnose* a mismatch, never to accept silently):
    the remaining 1-3 bytes are zero-padded to a dword and transformed as a fresh one-dword block under key + number_of_whole_dwords."""
    n4 = len(data) // 4
    out = b""
    if n4:
        vals = struct.unpack("<%dI" % n4, data[: n4 * 4])
        out = struct.pack("<%dI" % n4, *fn(vals, key))
    rest = bytes(data[n4 * 4:])
    if rest and tail == "padded-dword":
        v = struct.unpack("<I", rest + bytes(4 - len(rest)))[0]
        rest = struct.pack("<I", fn([v], (key + n4) & M32)[0])[: len(rest)]
    return out + rest


def encrypt_bytes(data, key, tail="plain"):
    return _crypt_bytes(data, key, encrypt_dwords, tail)


def decrypt_bytes(data, key, tail="plain"):
    return _crypt_bytes(data, key, decrypt_dwords, tail)


def plain_name(name):
    """File name without directory path: the part after the last backslash or slash."""
    if isinstance(name, str):
        name = name.encode("utf-8")
    k = max(name.rfind(b"\\"), name.rfind(b"/"))
    return name[k + 1:]


def file_key(name, block_offset, file_size, flags, use_plain_name=True):
    base = hash_string(plain_name(name) if use_plain_name else name, HASH_KEY)
    if flags & FLAG_FIX_KEY:
        base = ((base + (block_offset & M32)) & M32) ^ (file_size & M32)
    return base


HASH_TABLE_KEY = hash_string("(hash table)", HASH_KEY)
BLOCK_TABLE_KEY = hash_string("(block table)", HASH_KEY)


class RefError(Exception):
    pass


# --------------------------------------------------------------------- reader

class RefArchive:
    def __init__(self, data):
        self.data = bytes(data)
        self.regions = []  # (start, end, kind, detail)
        self._find_header()
        self._read_tables()

    def _find_header(self):
        d = self.data
        off = 0
        self.user_data = None
        while off + 32 <= len(d):
            sig = d[off:off + 4]
            if sig == MPQ_USERDATA and self.user_data is None:
                ud_size, hdr_off, ud_hdr_size = struct.unpack_from("<III", d, off + 4)
                self.user_data = (off, ud_size, hdr_off, ud_hdr_size)
                off = off + hdr_off
                continue
            if sig == MPQ_MAGIC:
                break
            off += 0x200
        else:
            raise RefError("no MPQ header found")
        self.archive_offset = off
        (self.header_size, self.archive_size32, self.version, self.shift, hpos, bpos, self.hash_size,
         self.block_size) = struct.unpack_from("<IIHHIIII", d, off + 4)
        self.hi_block_pos = 0
        if self.version >= 1 and self.header_size >= 44:
            self.hi_block_pos, hhi, bhi = struct.unpack_from("<QHH", d, off + 32)
            hpos |= hhi << 32
            bpos |= bhi << 32
        self.hash_pos, self.block_pos = hpos, bpos
        self.sector_size = 512 << self.shift
        self.regions.append((off, off + self.header_size, "header", None))

    def _read_tables(self):
        d, ao = self.data, self.archive_offset
        hs = ao + self.hash_pos
        raw = d[hs:hs + self.hash_size * 16]
        if len(raw) < self.hash_size * 16:
            raise RefError("hash table truncated")
        vals = decrypt_dwords(struct.unpack("<%dI" % (self.hash_size * 4), raw), HASH_TABLE_KEY)
        self.hash = []
        for i in range(self.hash_size):
            n1, n2, lp, bi = vals[4 * i:4 * i + 4]
            self.hash.append((n1, n2, lp & 0xFFFF, lp >> 16, bi))
        self.regions.append((hs, hs + self.hash_size * 16, "hash_table", None))
        bs = ao + self.block_pos
        raw = d[bs:bs + self.block_size * 16]
        if len(raw) < self.block_size * 16:
            raise RefError("block table truncated")
        vals = decrypt_dwords(struct.unpack("<%dI" % (self.block_size * 4), raw), BLOCK_TABLE_KEY)
        self.blocks = [tuple(vals[4 * i:4 * i + 4]) for i in range(self.block_size)]  # (pos, csize, fsize, flags)
        self.regions.append((bs, bs + self.block_size * 16, "block_table", None))

    def find(self, name):
        if self.hash_size == 0:
            return None
        mask = self.hash_size - 1
        start = hash_string(name, HASH_OFFSET) & mask
        a, b = hash_string(name, HASH_A), hash_string(name, HASH_B)
        i = start
        while True:
            n1, n2, loc, plat, bi = self.hash[i]
            if bi == HASH_NEVER_USED:
                return None
            if bi != HASH_DELETED and n1 == a and n2 == b:
                if bi < len(self.blocks):
                    return i, bi
            i = (i + 1) & mask
            if i == start:
                return None

    def hash_entries(self, name):
        """All (locale, platform, block index) entries stored for a name, in probe order."""
        out = []
        if self.hash_size == 0:
            return out
        mask = self.hash_size - 1
        start = hash_string(name, HASH_OFFSET) & mask
        a, b = hash_string(name, HASH_A), hash_string(name, HASH_B)
        i = start
        while True:
            n1, n2, loc, plat, bi = self.hash[i]
            if bi == HASH_NEVER_USED:
                return out
            if bi != HASH_DELETED and n1 == a and n2 == b:
                out.append((loc, plat, bi))
            i = (i + 1) & mask
            if i == start:
                return out

    def file_layout(self, name, use_plain_name=True):
        """(block index, pos, csize, fsize, flags, key) for a name, or None."""
        f = self.find(name)
        if f is None:
            return None
        _, bi = f
        pos, csize, fsize, flags = self.blocks[bi]
        key = file_key(name, pos, fsize, flags, use_plain_name) if flags & FLAG_ENCRYPTED else 0
        return bi, pos, csize, fsize, flags, key

    @staticmethod
    def _decompress_unit(unit, expected):
        if len(unit) >= expected:
            return unit[:expected] if len(unit) == expected else unit
        m = unit[0]
        body = unit[1:]
        if m == 0x02:
            out = zlib.decompress(body)
        elif m == 0x10:
            out = bz2.decompress(body)
        elif m == 0x12:
            raise RefError("LZMA not in the reference subset")
        else:
            raise RefError("compression mask 0x%02x not in the reference subset" % m)
        if len(out) != expected:
            raise RefError("unit decompressed to %d, expected %d" % (len(out), expected))
        return out

    def read(self, name, use_plain_name=True, trace=None, tail="plain", crc_model=None):
        """crc_model concerns compressed multi-sector files flagged SECTOR_CRC only. None = lenient (as before: one more
        offset-table entry is skipped, nothing about the checksums is demanded). "published" = the published layout, strictly:
        nsec + 2 offset-table entries, every sector inside the block, the last entry equal to the block's stored size, the
        checksum sector (raw or compressed, encrypted as sector number nsec) holding one ADLER32 per sector of the sector as
        stored. "private-front" = a named deviation model used only to *diagnose* a mismatch: nsec + 1 entries, nsec plain
        checksum dwords between the offset table and the first sector, not counted in the block's stored size."""
        lay = self.file_layout(name, use_plain_name)
        if lay is None:
            raise KeyError(name)
        bi, pos, csize, fsize, flags, key = lay
        if not flags & FLAG_EXISTS:
            raise RefError("block lacks EXISTS")
        if flags & FLAG_PATCH_FILE:
            raise RefError("patch file")
        if flags & FLAG_IMPLODE:
            raise RefError("IMPLODE not in the reference subset")
        d = self.data
        base = self.archive_offset + pos
        enc = bool(flags & FLAG_ENCRYPTED)
        if fsize == 0:
            return b""
        if flags & FLAG_SINGLE_UNIT:
            raw = d[base:base + csize]
            if len(raw) < csize:
                raise RefError("file data truncated")
            if enc:
                raw = decrypt_bytes(raw, key, tail)
            if flags & FLAG_COMPRESS:
                return self._decompress_unit(raw, fsize)
            return raw[:fsize]
        ss = self.sector_size
        nsec = (fsize + ss - 1) // ss
        if not flags & FLAG_COMPRESS:
            out = bytearray()
            for i in range(nsec):
                n = min(ss, fsize - i * ss)
                sec = d[base + i * ss: base + i * ss + n]
                if len(sec) < n:
                    raise RefError("file data truncated")
                if enc:
                    sec = decrypt_bytes(sec, (key + i) & M32, tail)
                out += sec
            return bytes(out)
        has_crc = bool(flags & FLAG_SECTOR_CRC)
        if not has_crc:
            crc_model = None
        ntab = nsec + 1 + (1 if has_crc and crc_model != "private-front" else 0)
        tab = d[base: base + 4 * ntab]
        if len(tab) < 4 * ntab:
            raise RefError("sector table truncated")
        if enc:
            tab = decrypt_bytes(tab, (key - 1) & M32)
        offs = struct.unpack("<%dI" % ntab, tab)
        if trace is not None:
            trace["offsets"] = offs
        # the sector table's last entry is the end of the stored block: it must equal the block table's compressed size
        if not flags & FLAG_SECTOR_CRC and offs[nsec] != csize:
            raise RefError("block table compressed_size %d != end of last sector %d" % (csize, offs[nsec]))
        if crc_model == "published" and offs[nsec + 1] != csize:
            raise RefError("block table compressed_size %d != end of the checksum sector %d" % (csize, offs[nsec + 1]))
        if crc_model == "private-front" and (offs[0] != 4 * (2 * nsec + 1) or offs[nsec] != csize + 4 * nsec):
            raise RefError("not the private checksum layout: first sector at %d, last sector ends at %d, stored size %d" % (offs[0], offs[nsec], csize))
        limit = csize if crc_model == "published" else csize + 4 * nsec if crc_model == "private-front" else csize + 8
        out = bytearray()
        stored_sums = []
        for i in range(nsec):
            a, b = offs[i], offs[i + 1]
            if b < a or b > limit:
                raise RefError("sector offsets out of order: %r" % (offs[:6],))
            sec = d[base + a: base + b]
            if enc:
                sec = decrypt_bytes(sec, (key + i) & M32, tail)
            stored_sums.append(zlib.adler32(sec) & M32)
            n = min(ss, fsize - i * ss)
            out += self._decompress_unit(sec, n)
        if len(out) != fsize:
            raise RefError("size mismatch")
        if crc_model == "published":
            a, b = offs[nsec], offs[nsec + 1]
            if b < a:
                raise RefError("checksum sector: offsets out of order")
            cs = d[base + a: base + b]
            if enc:
                cs = decrypt_bytes(cs, (key + nsec) & M32, tail)
            cs = self._decompress_unit(cs, 4 * nsec) if cs else cs
            if len(cs) != 4 * nsec:
                raise RefError("checksum sector holds %d bytes, %d sectors" % (len(cs), nsec))
            sums = struct.unpack("<%dI" % nsec, cs)
            if trace is not None:
                trace["sector_sums"] = sums
            # a stored value of 0 means "no checksum for this sector" to the readers that verify them
            bad = [i for i in range(nsec) if sums[i] not in (0, stored_sums[i])]
            if bad:
                raise RefError("sector checksum mismatch in sector %d" % bad[0])
        return bytes(out)

    def listfile(self):
        try:
            txt = self.read("(listfile)")
        except KeyError:
            return None
        return [l for l in txt.decode("utf-8", "replace").replace("\r", "\n").split("\n") if l]

    def region_map(self, names):
        """Byte ranges of the archive file: header, tables, and per-file data / sector table."""
        regs = list(self.regions)
        for n in names:
            lay = self.file_layout(n)
            if lay is None:
                continue
            bi, pos, csize, fsize, flags, key = lay
            base = self.archive_offset + pos
            if flags & FLAG_SINGLE_UNIT or not flags & FLAG_COMPRESS:
                regs.append((base, base + csize, "file_data", n))
                if flags & FLAG_SECTOR_CRC and flags & FLAG_SINGLE_UNIT:
                    regs.append((base + csize, base + csize + 4, "unit_crc", n))
            else:
                nsec = (fsize + self.sector_size - 1) // self.sector_size
                regs.append((base, base + 4 * (nsec + 1), "sector_table", n))
                regs.append((base + 4 * (nsec + 1), base + csize, "file_data", n))
        return sorted(regs)


# --------------------------------------------------------------------- writer

def stormlib_window_bits(n):
    """The deflate window StormLib's writer picks from the unit length (Compress_ZLIB): a standard RFC 1950 stream whose
    header byte is 0x48/0x58/0x68 rather than 0x78. zlib itself widens 8 to 9."""
    for bits, lim in ((9, 0x200), (10, 0x400), (11, 0x800), (12, 0x1000), (13, 0x2000), (14, 0x4000)):
        if n <= lim:
            return bits
    return 15


def _compress_unit(data, method, zparams=None):
    """Per-unit rule of the format: store compressed (mask byte + stream) only if smaller.
    zparams: None = zlib defaults (level 6, 32 KiB window) / bzip2 level 9; ("stormlib",) = window sized after the unit;
    (level, wbits) = explicit zlib parameters; bzip2 takes the level."""
    if method == 0 or len(data) == 0:
        return data
    if method == 0x02:
        if zparams is None:
            body = zlib.compress(data, 6)
        else:
            level, wbits = (6, stormlib_window_bits(len(data))) if zparams[0] == "stormlib" else zparams
            co = zlib.compressobj(level, zlib.DEFLATED, wbits)
            body = co.compress(data) + co.flush()
    elif method == 0x10:
        body = bz2.compress(data, 9 if zparams is None or zparams[0] == "stormlib" else max(1, min(9, zparams[0])))
    else:
        raise RefError("writer supports none/zlib/bzip2 only")
    if 1 + len(body) < len(data):
        return bytes([method]) + body
    return data


class RefFile:
    def __init__(self, name, data, method=0, encrypt=False, fix_key=False, single_unit=False, flags_extra=0, raw_stored=None, zparams=None,
                 sector_crc=False, locale=0, platform=0, crc_when_encrypted=False):
        self.name = name            # bytes or str: the name hashed into the hash table (and used for the key)
        self.data = bytes(data)
        self.method = method
        self.encrypt = encrypt
        self.fix_key = fix_key
        self.single_unit = single_unit
        self.flags_extra = flags_extra   # e.g. FLAG_PATCH_FILE
        self.raw_stored = raw_stored     # if set: store these bytes verbatim (used for patch entries)
        self.zparams = zparams           # see _compress_unit
        self.sector_crc = sector_crc     # compressed multi-sector files only: offset table with one more entry + checksum sector behind the data
        self.crc_when_encrypted = crc_when_encrypted  # emit the checksum sector for encrypted files too (encrypted as sector number nsec)
        self.locale = locale             # hash-table entry fields (u16 each)
        self.platform = platform


def write_archive(files, version=1, shift=3, hash_size=None, prefix=0, user_data=False, deleted_probes=0,
                  listfile=True, listfile_names=None, listfile_method=0x02, rng=None, table_layout="end-hash-first"):
    """Returns (archive bytes, info dict). Layout decisions are the reference's own:
    uncompressed files carry no sector table; each unit is stored raw unless compression shrinks it;
    never-used hash entries are all-ones; optional deleted markers are planted in probe chains."""
    ss = 512 << shift
    entries = list(files)
    if listfile:
        names = listfile_names if listfile_names is not None else [f.name if isinstance(f.name, str) else f.name.decode("utf-8", "replace") for f in files]
        txt = "".join(n + "\r\n" for n in names).encode("utf-8")
        entries.append(RefFile("(listfile)", txt, method=listfile_method, single_unit=False))
    n = len(entries)
    if hash_size is None:
        hash_size = 4
        while hash_size < n + deleted_probes + 1:
            hash_size *= 2
    assert hash_size & (hash_size - 1) == 0 and hash_size >= n + deleted_probes  # a table may be completely full
    header_size = 32 if version == 1 else 44
    body = bytearray()
    blocks = []
    unit_lens = []
    # both tables have a size known in advance; the header carries both positions, so they may stand behind the file data
    # (what most writers do) or in front of it, in either order
    assert table_layout in ("end-hash-first", "end-block-first", "front-hash-first", "front-block-first")
    tables_len = hash_size * 16 + n * 16
    data_start = header_size + (tables_len if table_layout.startswith("front") else 0)
    pos = data_start
    for f in entries:
        flags = FLAG_EXISTS | f.flags_extra
        fsize = len(f.data)
        if f.raw_stored is not None:
            stored = bytes(f.raw_stored)
            if f.method:
                flags |= FLAG_COMPRESS
            if f.single_unit:
                flags |= FLAG_SINGLE_UNIT
            blocks.append((pos, len(stored), fsize, flags))
            unit_lens.append([len(stored)])
            body += stored
            pos += len(stored)
            continue
        if f.encrypt:
            flags |= FLAG_ENCRYPTED
            if f.fix_key:
                flags |= FLAG_FIX_KEY
        single = f.single_unit or False
        if single:
            flags |= FLAG_SINGLE_UNIT
        key = file_key(f.name, pos, fsize, flags) if f.encrypt else 0
        if single or fsize == 0:
            unit = _compress_unit(f.data, f.method, f.zparams)
            if f.method:
                flags |= FLAG_COMPRESS
            stored = encrypt_bytes(unit, key) if f.encrypt else unit
            ul = [len(unit)]
        elif f.method == 0:
            out = bytearray()
            nsec = (fsize + ss - 1) // ss
            for i in range(nsec):
                sec = f.data[i * ss:(i + 1) * ss]
                out += encrypt_bytes(sec, (key + i) & M32) if f.encrypt else sec
            stored = bytes(out)
            ul = [len(f.data[i * ss:(i + 1) * ss]) for i in range(nsec)]
        else:
            flags |= FLAG_COMPRESS
            nsec = (fsize + ss - 1) // ss
            units = [_compress_unit(f.data[i * ss:(i + 1) * ss], f.method, f.zparams) for i in range(nsec)]
            with_crc = bool(f.sector_crc) and (not f.encrypt or f.crc_when_encrypted)
            offs = [4 * (nsec + 1 + (1 if with_crc else 0))]
            for u in units:
                offs.append(offs[-1] + len(u))
            ul = [len(u) for u in units]
            if with_crc:
                # the published layout: one ADLER32 per sector (of the sector as stored), kept as one more "sector" behind the
                # data and announced by one more offset-table entry; stored raw here (it may be compressed, it need not be)
                flags |= FLAG_SECTOR_CRC
                crc = struct.pack("<%dI" % nsec, *[zlib.adler32(u) & M32 for u in units])
                units = units + [crc]
                offs.append(offs[-1] + len(crc))
            tab = struct.pack("<%dI" % len(offs), *offs)
            if f.encrypt:
                tab = encrypt_bytes(tab, (key - 1) & M32)
                units = [encrypt_bytes(u, (key + i) & M32) for i, u in enumerate(units)]
            stored = tab + b"".join(units)
        blocks.append((pos, len(stored), fsize, flags))
        unit_lens.append(ul)
        body += stored
        pos += len(stored)
    # hash table: never-used entries all ones
    hash_tab = [(M32, M32, 0xFFFF, 0xFFFF, HASH_NEVER_USED)] * hash_size
    mask = hash_size - 1

    def insert(name, bi):
        i = hash_string(name, HASH_OFFSET) & mask
        while hash_tab[i][4] not in (HASH_NEVER_USED,):
            i = (i + 1) & mask
        hash_tab[i] = (hash_string(name, HASH_A), hash_string(name, HASH_B), 0, 0, bi)
        return i
    # plant deleted markers first so that real entries probe through them
    planted = 0
    if deleted_probes and entries:
        for k in range(deleted_probes):
            target = entries[k % len(entries)].name
            i = hash_string(target, HASH_OFFSET) & mask
            tries = 0
            while hash_tab[i][4] != HASH_NEVER_USED and tries < hash_size:
                i = (i + 1) & mask
                tries += 1
            if hash_tab[i][4] == HASH_NEVER_USED:
                hash_tab[i] = (M32, M32, 0xFFFF, 0xFFFF, HASH_DELETED)
                planted += 1
    slots = {}
    for bi, f in enumerate(entries):
        # real entries may not reuse deleted slots in this writer (keeps the chains long)
        i = hash_string(f.name, HASH_OFFSET) & mask
        while hash_tab[i][4] != HASH_NEVER_USED:
            i = (i + 1) & mask
        hash_tab[i] = (hash_string(f.name, HASH_A), hash_string(f.name, HASH_B), f.locale & 0xFFFF, f.platform & 0xFFFF, bi)
        slots[bi] = i
    hvals = []
    for n1, n2, loc, plat, bi in hash_tab:
        hvals += [n1, n2, (plat << 16) | loc, bi]
    hraw = struct.pack("<%dI" % len(hvals), *encrypt_dwords(hvals, HASH_TABLE_KEY))
    bvals = []
    for b in blocks:
        bvals += list(b)
    braw = struct.pack("<%dI" % len(bvals), *encrypt_dwords(bvals, BLOCK_TABLE_KEY)) if bvals else b""
    assert len(hraw) + len(braw) == tables_len
    tbase = header_size if table_layout.startswith("front") else pos
    if table_layout.endswith("hash-first"):
        hash_pos, block_pos = tbase, tbase + len(hraw)
        tables = hraw + braw
    else:
        block_pos, hash_pos = tbase, tbase + len(braw)
        tables = braw + hraw
    archive_size = pos if table_layout.startswith("front") else pos + tables_len
    hdr = struct.pack("<4sIIHHIIII", MPQ_MAGIC, header_size, archive_size & M32, 0 if version == 1 else 1, shift,
                      hash_pos & M32, block_pos & M32, hash_size, len(blocks))
    if version != 1:
        hdr += struct.pack("<QHH", 0, hash_pos >> 32, block_pos >> 32)
    arc = hdr + tables + bytes(body) if table_layout.startswith("front") else hdr + bytes(body) + tables
    pre = b""
    if prefix:
        if user_data:
            pre = struct.pack("<4sIII", MPQ_USERDATA, prefix - 16, prefix, 16)
            pre += bytes((i * 7 + 1) & 0xFF for i in range(prefix - 16))
        else:
            pre = bytes((i * 13 + 5) & 0xFF for i in range(prefix))
            # make sure no fake header magic sits on a 0x200 boundary of the junk
    info = {"version": version, "shift": shift, "hash_size": hash_size, "blocks": blocks, "hash_pos": hash_pos, "block_pos": block_pos,
            "archive_size": archive_size, "header_size": header_size, "table_layout": table_layout, "prefix": prefix, "deleted_planted": planted, "slots": slots, "unit_lens": unit_lens,
            "names": [f.name if isinstance(f.name, str) else f.name.decode("utf-8", "replace") for f in entries]}
    return pre + arc, info
