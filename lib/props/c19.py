"""C19 — StormLib-style C API: memory safety, handle lifetimes, agreement with the Rust API (DESIGN.md §6 C19).

Layers (each reported separately in the evidence file):
  native  vh-ffi/c19          single-threaded call histories against a model of the three handle tables + canary buffers
  native  vh-ffi/c19_threads  N in {2,4,8,16} threads on shared/private handles, call/return log, offline checker
  ASan    the same histories (a slice in quick, all in thorough) with exact-size caller buffers
  TSan    the threaded runs (thorough)
  Miri    a handful of short histories (thorough)
A sanitizer layer that cannot be built or started is reported inconclusive, never as a violation.
"""
import glob
import json
import os
import re
import subprocess
import time

import sup

PROP = "C19"

RULE = ("single thread: one case = one call history (3 warm-up calls + 40 random calls, thorough: every 4th has 120) over the 30 exported SFile* functions "
        "drawn by one of 5 weight profiles; handle arguments are drawn from {live, closed, orphan (its archive was closed), live handle of another table, 0, 1, "
        "usize::MAX, live+1, live-1, next-id-to-be-issued}; names from {present in 3 spellings, absent, empty, 300 chars, (listfile)}; buffer sizes include 0, "
        "exact fit, one short, oversize to_read; every string / buffer / out-handle pointer of a call is NULL now and then; adds use every flag combination of "
        "{ENCRYPTED, FIX_KEY, REPLACEEXISTING} and every compression mask incl. the two ADPCM codecs (reference: the Rust API adding the same source with the same options). "
        "The read-only fixtures include members stored encrypted (plain and adjusted key, compressed and raw), a weakly signed archive and the same archive changed after "
        "signing; the verdict of SFileVerifyArchive on the signature must be the one Archive::verify_signature gives. "
        "21 scripted probe histories precede the random ones (exactness of archive close, read/seek boundaries, every "
        "buffer size of the name/info calls, every function x forged handle, the trigger predicates of calls that never return, and a sweep of search masks: every "
        "fixture x every listed name x 12 mask shapes with '*' / '?' inserted at / replacing / surrounding every position of the name, each searched to exhaustion). "
        "Masked searches (SFileFindFirstFile / SFileFindNextFile; in random histories half of the masks are derived from the archive's own names the same way) are judged "
        "against an independent glob model applied to the Rust list(): a search that ran to its end must have produced every listed name the mask selects, every "
        "produced name must be selected by the mask, and a search that finds nothing must have nothing to find. Oracle per call: model of "
        "the handle tables (valid iff issued, right table, not closed, archive not closed) and the Rust API on the same archive file (read-only handles) or a "
        "shadow MutableArchive driven in lock-step on a byte-identical copy (mutable handles). threads: one case = one run of N threads x 160 (300) calls, checked "
        "offline from the call/return log; in two runs of three one more thread mutates a shared writable archive (V1 / V2; add, replace, remove, rename, flush, compact; "
        "the same mutations go through a shadow MutableArchive on a copy) while the N threads ask it for existence, contents, names, extraction, verification and listings: "
        "each answer must be the Rust API's answer in one of the states between the mutations that had returned when the call was made and those that had been called when it "
        "returned (names no mutation touches therefore answer exactly). distinct = distinct (profile, plan hash) histories / distinct (N, mutable, yield, close points) thread plans; a history is "
        "non-trivial if at least 3 calls on live handles succeeded and at least one call used an invalid handle.")

ASSUME = [
    "handle tables are process-global: ids issued in earlier cases of the same worker stay 'closed' for later ones",
    "mutable handles are compared with a shadow MutableArchive on a copy of the archive made right after SFileCreateArchive2 returned (compare like with like); "
    "the bytes of (attributes) of a mutable archive are not compared (they contain the wall clock)",
    "names longer than 259 bytes cannot be represented in SFILE_FIND_DATA; they are compared by their 259-byte prefix",
    "seeks whose arithmetic target lies outside [0, length] are not compared beyond 'returned position within [0, length]'",
    "re-entrant calls from inside the SFileEnumFiles callback are not driven; caller buffers are 8-byte aligned",
    "search masks: '*' = any run of characters incl. none and incl. backslashes, '?' = exactly one character, other characters match themselves without regard to "
    "ASCII case (as name lookups do), the whole name must be covered; NULL, '*' and '*.*' select everything; the empty mask and non-ASCII masks / names are not judged; "
    "SFileEnumFiles documents plain '*' only and its masked results are only required to be listed names",
    "random histories stay off three trigger predicates whose calls never return (SFILE_VERIFY_ALL_FILES on an archive listing a regular file; an add into a "
    "full hash table; a directory as archive path) and off PKWare compression; each predicate has its own probe case",
    "in threaded runs the time stamps are taken at the caller boundary, so 'called after the close returned' is sound but not complete",
    "mutation racing with reads: one mutating thread per archive (its mutations are totally ordered), V1 / V2 archives without (attributes); SFileVerifyFile = true is only "
    "required to concern a name that exists in the writable or the read-only view in one of the candidate states; the verdicts of SFileVerifyArchive are not compared there",
    "a verdict of SFileVerifyArchive is compared only as far as the signature goes (flag 0x10 or flags 0): refused iff Archive::verify_signature reports an invalid signature "
    "or an error; with SFILE_VERIFY_ALL_FILES a refusal is never counted against the call",
]


def _last_call(stderr_text):
    """(function, handle label, panic suffix) of the call that was in flight when the worker died."""
    fn, label, panic = "?", "?", ""
    lines = stderr_text.splitlines()
    last = -1
    for i, l in enumerate(lines):
        if l.startswith("C19-CALL "):
            last = i
    if last >= 0:
        parts = lines[last].split()
        if len(parts) >= 4:
            fn, label = parts[2], parts[3]
        for l in lines[last + 1:]:
            if l.startswith("C19-PANIC "):
                m = re.search(r" at=(\S+) msg=(.*)$", l)
                if m:
                    at = re.sub(r"-\d+(\.\d+)*/", "/", m.group(1))  # crate version out of registry paths
                    msg = m.group(2).strip().split(" steps=")[0][:70]
                    panic = f"|panic@{at}:{msg}"
                break
    return fn, label, panic


def _open_case(journal):
    open_idx = None
    try:
        for line in open(journal, errors="replace"):
            try:
                ev = json.loads(line)
            except Exception:
                continue
            if ev.get("e") == "B":
                open_idx = ev["i"]
            elif ev.get("e") == "E":
                open_idx = None
    except OSError:
        pass
    return open_idx


def _rekey_crashes(res, layer, scratch=None, label=None, replay_base=None):
    """The supervisor files every worker death as crash|<kind>|<site>, and the site is '?' for an abort out of an
    extern "C" function, so different deaths would share one signature. Rebuild them from the per-shard stderr
    breadcrumbs: function in flight | handle kind | abort class | panic location and message."""
    found = 0
    labels = [label] if isinstance(label, str) else (label or [])
    if scratch:
        for jpath in sorted(j for lb in labels for j in glob.glob(os.path.join(scratch, f"journal-{lb}[0-9]*-*.jsonl"))):
            idx = _open_case(jpath)
            if idx is None:
                continue
            epath = jpath.replace("journal-", "stderr-").replace(".jsonl", ".txt")
            try:
                text = open(epath, errors="replace").read()
            except OSError:
                continue
            tail = text[-6000:]
            if "cannot unwind" in tail or "failed to initiate panic" in tail or "C19-PANIC" in tail[-1500:]:
                kind = "abort-on-panic"
            elif "AddressSanitizer" in tail:
                continue  # counted from the ASan log files
            elif "stack overflow" in tail or "overflowed its stack" in tail:
                kind = "stack-overflow"
            elif "memory allocation of" in tail:
                kind = "alloc-abort"
            else:
                continue  # no banner: leave it to the generic entry (signal name) or the hang logic
            fn, hl, panic = _last_call(tail)
            rp = dict(replay_base or {})
            rp["only"] = idx
            res.add_violation(f"C19|no-crash|{fn}|{hl}|{kind}{panic}", f"[{layer}] the process aborted inside {fn} on a {hl} handle (case {idx})",
                              {"stderr": tail[-1500:]}, rp)
            found += 1
    for sig in list(res.violations.keys()):
        if not sig.startswith("crash|"):
            continue
        w = res.violations.pop(sig)
        n = res.viol_counts.pop(sig)
        kind = sig.split("|")[1]
        if found and kind in ("SIGABRT", "abort-nounwind-panic", "alloc-abort", "stack-overflow"):
            continue  # replaced by the entries above
        text = (w.get("detail") or {}).get("stderr", "")
        fn, hl, panic = _last_call(text)
        new = f"C19|no-crash|{fn}|{hl}|{kind}{panic}"
        w = dict(w)
        w["sig"] = new
        w["what"] = f"[{layer}] process died ({kind}) inside {fn} on a {hl} handle; {w['what']}"
        if new in res.violations:
            res.viol_counts[new] += n
        else:
            res.violations[new] = w
            res.viol_counts[new] = n


def _merge(dst, src, count_cases=False):
    """Violations and inconclusive reasons of a layer go into the main result. With count_cases its cases, verdicts,
    classes and samples are added too (native layers); a sanitizer layer re-runs cases and only adds what it found."""
    for sig, w in src.violations.items():
        if sig in dst.violations:
            dst.viol_counts[sig] += src.viol_counts[sig]
        else:
            dst.violations[sig] = w
            dst.viol_counts[sig] = src.viol_counts[sig]
    for k, n in src.inconclusive_reasons.items():
        dst.inconclusive_reasons[k] = dst.inconclusive_reasons.get(k, 0) + n
        if not count_cases:
            dst.verdicts["inconc"] += n
    if count_cases:
        dst.cases += src.cases
        for k, v in src.verdicts.items():
            dst.verdicts[k] = dst.verdicts.get(k, 0) + v
        dst.classes |= src.classes
        dst.samples.extend(src.samples[:2])
    dst.notes.extend(src.notes)
    dst.crashes += src.crashes


def _layer_summary(r):
    c = r.counters
    return {"cases": r.cases, "verdicts": dict(r.verdicts), "calls": c.get("calls", 0), "histories": c.get("histories", 0),
            "threaded_runs": c.get("threaded_runs", 0), "buffers_checked": c.get("buffers_canary_checked", 0)}


ASAN_RE = re.compile(r"ERROR: AddressSanitizer: (\S+)")
TSAN_RE = re.compile(r"WARNING: ThreadSanitizer: ([^\(\n]+)")


def _asan_reports(res, logdir, layer_res):
    """Count report blocks in the ASan log files; each distinct (bug type, C-API frame) is a violation."""
    blocks = 0
    for path in sorted(glob.glob(os.path.join(logdir, "asan.*"))):
        try:
            text = open(path, errors="replace").read()
        except OSError:
            continue
        for m in ASAN_RE.finditer(text):
            blocks += 1
            bug = m.group(1)
            rest = text[m.end():m.end() + 6000]
            fm = re.search(r"in (?:vh_ffi::storm::)?(SFile\w+)", rest)
            fn = fm.group(1) if fm else "?"
            acc = re.search(r"(READ|WRITE) of size", rest)
            sig = f"C19|memory-safety|asan|{bug}|{acc.group(1).lower() if acc else 'access'}|{fn}"
            res.add_violation(sig, f"AddressSanitizer: {bug} ({acc.group(1) if acc else 'access'}) with {fn} on the stack", {"report": text[m.start():m.start() + 2500]},
                              {"property": PROP, "note": "see the crash-attributed case of the asan layer", "log": os.path.basename(path)})
    # the same events were also seen by the supervisor as worker deaths; those carry the replay index
    for sig in list(layer_res.violations.keys()):
        if sig.startswith("crash|asan-report"):
            w = layer_res.violations.pop(sig)
            layer_res.viol_counts.pop(sig)
            fn, label, _ = _last_call((w.get("detail") or {}).get("stderr", ""))
            for s2, w2 in res.violations.items():
                if s2.startswith("C19|memory-safety|asan|") and w2.get("replay", {}).get("note"):
                    w2["replay"] = w.get("replay")
                    w2["what"] += f" (in flight: {fn} on {label})"
            if blocks == 0:
                res.add_violation(f"C19|memory-safety|asan|report-without-log|{fn}", w["what"], w.get("detail"), w.get("replay"))
    return blocks


def _tsan_reports(res, logdir):
    blocks = 0
    for path in sorted(glob.glob(os.path.join(logdir, "tsan.*"))):
        try:
            text = open(path, errors="replace").read()
        except OSError:
            continue
        for m in TSAN_RE.finditer(text):
            blocks += 1
            kind = m.group(1).strip().replace(" ", "-")
            seg = text[m.start():m.start() + 60000]
            sm = re.search(r"SUMMARY: ThreadSanitizer: [^\n]* in (\S+)", seg)
            f0 = re.search(r"#0 (\S+) ", seg)
            fn = sm.group(1) if sm else (f0.group(1) if f0 else "?")
            fn = re.sub(r"::h[0-9a-f]{16}$", "", fn)
            fn = re.sub(r"<[^>]*>", "", fn)
            res.add_violation(f"C19|data-race|tsan|{kind}|{fn}", f"ThreadSanitizer: {kind} in {fn}", {"report": seg[:2500]},
                              {"property": PROP, "note": "threaded TSan run", "log": os.path.basename(path)})
    return blocks


def _miri_slice(res, tier, seed, scratch, n_proc, first_idx):
    """A few short histories under Miri, in parallel processes. Returns a summary dict."""
    summ = {"requested": n_proc, "completed": 0, "ub_reports": 0, "unsupported": 0, "calls": 0}
    native = sup.build("vh-ffi", "c19")
    fix = os.path.join(scratch, "miri-fixtures")
    p = subprocess.run([native, "--mkfix", "1", "--fixtures", fix, "--out", os.path.join(scratch, "mkfix.jsonl"), "--scratch", scratch],
                       stdout=subprocess.DEVNULL, stderr=subprocess.PIPE, text=True)
    if p.returncode != 0 or not os.path.exists(os.path.join(fix, "d_tiny_raw.mpq")):
        res.add_inconclusive("miri-fixtures-not-built")
        return summ
    env = sup.cargo_env("", sup.TARGET_BASE + "-miri")
    env["MIRIFLAGS"] = "-Zmiri-disable-isolation -Zmiri-ignore-leaks"
    env["VERIF_SEED"] = str(seed)
    env.setdefault("RUST_BACKTRACE", "0")
    base = ["cargo", "+nightly", "miri", "run", "--offline", "-q", "-p", "vh-ffi", "--bin", "c19", "--"]
    # build once (serialised by cargo anyway), so that the parallel runs only interpret
    t0 = time.time()
    procs = []
    for k in range(n_proc):
        idx = first_idx + k
        j = os.path.join(scratch, f"miri-{idx}.jsonl")
        wd = os.path.join(scratch, f"miri-w{idx}")
        os.makedirs(wd, exist_ok=True)
        err = open(os.path.join(scratch, f"miri-{idx}.stderr"), "w")
        cmd = base + ["--tier", tier, "--seed", str(seed), "--only", str(idx), "--miri", "1", "--exact", "1", "--fixtures", fix, "--out", j, "--scratch", wd]
        procs.append((idx, j, err, subprocess.Popen(cmd, cwd=sup.HARNESS, env=env, stdout=subprocess.DEVNULL, stderr=err)))
        if k == 0:
            # let the first one take the build lock alone; the others then find everything compiled
            try:
                procs[0][3].wait(timeout=1)
            except subprocess.TimeoutExpired:
                pass
    deadline = time.time() + 1500
    layer = sup.Result(PROP)
    rb = {"property": PROP, "tier": tier, "seed": seed, "bin": "c19", "args": ["--miri", "1", "--exact", "1", "--fixtures", "<miri fixtures>"]}
    for idx, j, err, pr in procs:
        try:
            pr.wait(timeout=max(1, deadline - time.time()))
        except subprocess.TimeoutExpired:
            pr.kill()
            pr.wait()
            res.add_inconclusive("miri-run-timeout")
            err.close()
            continue
        err.close()
        text = open(err.name, errors="replace").read()
        open_idx, done, _ = layer.absorb_journal(j, rb)
        if "error: Undefined Behavior" in text:
            summ["ub_reports"] += 1
            m = re.search(r"error: Undefined Behavior: ([^\n]+)", text)
            what = m.group(1) if m else "?"
            norm = re.sub(r"0x[0-9a-f]+|\d+", "N", what)[:90]
            fn, label, _ = _last_call(text)
            res.add_violation(f"C19|memory-safety|miri|{fn}|{norm}", f"Miri: Undefined Behavior: {what} (in flight: {fn} on {label})",
                              {"stderr": text[-3000:]}, dict(rb, only=idx))
        elif "unsupported operation" in text:
            summ["unsupported"] += 1
            m = re.search(r"unsupported operation: ([^\n]+)", text)
            res.add_inconclusive("miri-unsupported:" + (m.group(1)[:60] if m else "?"))
        elif pr.returncode != 0 or not done:
            if "could not compile" in text or "error: no such command" in text or "is not installed" in text:
                res.add_inconclusive("miri-not-available")
            elif open_idx is not None:
                fn, label, panic = _last_call(text)
                res.add_violation(f"C19|no-crash|{fn}|{label}|miri-abort{panic}", f"[miri] the interpreter stopped inside {fn}", {"stderr": text[-2000:]}, dict(rb, only=idx))
            else:
                res.add_inconclusive("miri-run-failed")
                res.notes.append(f"miri idx {idx}: exit {pr.returncode}: {text[-400:]}")
        else:
            summ["completed"] += 1
    _merge(res, layer)
    summ["calls"] = layer.counters.get("calls", 0)
    summ["cases"] = layer.cases
    summ["wall_s"] = round(time.time() - t0, 1)
    return summ


def run(tier, seed, scratch, t0):
    thorough = tier == "thorough"
    res = sup.Result(PROP)
    layers = {}

    # ---- native: single-threaded histories
    b_single = sup.build("vh-ffi", "c19")
    b_threads = sup.build("vh-ffi", "c19_threads")
    sup.run_workers(res, b_single, [], tier, seed, scratch, nshards=16, case_timeout=90, label="st", total_timeout=3000)
    _rekey_crashes(res, "native", scratch, "st", {"property": PROP, "tier": tier, "seed": seed, "bin": "c19", "args": []})
    layers["native_single_thread"] = _layer_summary(res)

    # ---- native: threaded runs
    rt = sup.Result(PROP)
    n_thr = 300 if thorough else 24
    sup.run_workers(rt, b_threads, ["--count", str(n_thr), "--stall", "10"], tier, seed, scratch, nshards=6 if thorough else 4, case_timeout=90,
                    label="th", total_timeout=3000)
    _rekey_crashes(rt, "native-threads", scratch, "th", {"property": PROP, "tier": tier, "seed": seed, "bin": "c19_threads", "args": ["--count", str(n_thr), "--stall", "10"]})
    layers["native_threads"] = _layer_summary(rt)
    for k, n in rt.counters.items():
        res.add_counter(k if k.startswith("threaded") or k.startswith("shared") or k.startswith("mutrace") else "threads:" + k, n)
    hashes = rt.extras.get("interleaving_hashes") or []
    _merge(res, rt, count_cases=True)

    # ---- the same histories on a build with arithmetic-overflow checks and debug assertions (what `cargo build` / `cargo test`
    # produce): a panic inside an extern "C" function aborts the caller's process, so an overflow that only wraps in a
    # release build is a crash in this one
    checked = {"built": False}
    try:
        c_single = sup.build("vh-ffi", "c19", flavor="checked")
        checked["built"] = True
    except sup.Broken as ex:
        res.add_inconclusive("checked-build-failed")
        res.notes.append(str(ex)[-600:])
        c_single = None
    if c_single:
        rc = sup.Result(PROP)
        sup.run_workers(rc, c_single, [], tier, seed, scratch, nshards=16, case_timeout=120, label="chk", total_timeout=3000)
        _rekey_crashes(rc, "overflow-checks", scratch, "chk", {"property": PROP, "tier": tier, "seed": seed, "bin": "c19", "args": [], "flavor": "checked"})
        checked.update(_layer_summary(rc))
        if rc.cases == 0:
            res.add_inconclusive("checked-layer-ran-nothing")
        _merge(res, rc)
    layers["overflow_checks_build"] = checked

    # ---- ASan over the same histories
    asan = {"built": False}
    try:
        a_single = sup.build("vh-ffi", "c19", flavor="asan")
        a_threads = sup.build("vh-ffi", "c19_threads", flavor="asan") if thorough else None
        asan["built"] = True
    except sup.Broken as ex:
        res.add_inconclusive("asan-build-failed")
        res.notes.append(str(ex)[-600:])
        a_single = a_threads = None
    if a_single:
        logdir = os.path.join(scratch, "asan-logs")
        os.makedirs(logdir, exist_ok=True)
        env = {"ASAN_OPTIONS": f"log_path={logdir}/asan:halt_on_error=1:detect_leaks=0:abort_on_error=1:allocator_may_return_null=1"}
        ra = sup.Result(PROP)
        count = 5000 if thorough else 84
        sup.run_workers(ra, a_single, ["--exact", "1", "--count", str(count)], tier, seed, scratch, nshards=16, case_timeout=180, label="asan",
                        env_extra=env, total_timeout=3000)
        if a_threads:
            sup.run_workers(ra, a_threads, ["--exact", "1", "--count", "60", "--stall", "30"], tier, seed, scratch, nshards=4, case_timeout=240, label="asanth",
                            env_extra=env, total_timeout=3000)
        blocks = _asan_reports(res, logdir, ra)
        _rekey_crashes(ra, "asan", scratch, ["asan", "asanth"], {"property": PROP, "tier": tier, "seed": seed, "bin": "c19", "args": []})
        asan.update(_layer_summary(ra))
        asan["report_blocks"] = blocks
        if ra.cases == 0:
            res.add_inconclusive("asan-layer-ran-nothing")
        _merge(res, ra)
    layers["asan"] = asan

    # ---- thorough: TSan on the threaded runs, Miri slice
    if thorough:
        tsan = {"built": False}
        try:
            t_threads = sup.build("vh-ffi", "c19_threads", flavor="tsan")
            tsan["built"] = True
        except sup.Broken as ex:
            res.add_inconclusive("tsan-build-failed")
            res.notes.append(str(ex)[-600:])
            t_threads = None
        if t_threads:
            logdir = os.path.join(scratch, "tsan-logs")
            os.makedirs(logdir, exist_ok=True)
            env = {"TSAN_OPTIONS": f"log_path={logdir}/tsan:halt_on_error=0:exitcode=0:second_deadlock_stack=1"}
            rs = sup.Result(PROP)
            sup.run_workers(rs, t_threads, ["--count", "120", "--stall", "60"], tier, seed, scratch, nshards=4, case_timeout=400, label="tsan",
                            env_extra=env, total_timeout=3000)
            blocks = _tsan_reports(res, logdir)
            _rekey_crashes(rs, "tsan", scratch, "tsan", {"property": PROP, "tier": tier, "seed": seed, "bin": "c19_threads", "args": ["--count", "120", "--stall", "10"]})
            tsan.update(_layer_summary(rs))
            tsan["report_blocks"] = blocks
            if rs.cases == 0:
                res.add_inconclusive("tsan-layer-ran-nothing")
            _merge(res, rs)
        layers["tsan"] = tsan
        layers["miri"] = _miri_slice(res, tier, seed, scratch, 16, 13 + 100)

    # ---- evidence
    matrix = {}
    by_func = {}
    for k, n in res.counters.items():
        if k.startswith("hk|"):
            _, label, outcome = k.split("|")
            matrix.setdefault(label, {})[outcome] = n
        elif k.startswith("call|"):
            by_func[k[5:]] = n
    res.extras.pop("interleaving_hashes", None)
    extra = {
        "layers": layers,
        "handle_kind_x_outcome": matrix,
        "calls_by_function_single_thread": by_func,
        "functions_driven": len(by_func),
        "distinct_per_handle_call_orders_observed": len(set(hashes)),
        "threaded_runs": res.counters.get("threaded_runs", 0),
    }
    return sup.finish(res, tier, seed, "exploration", RULE, t0, assumptions=ASSUME, min_cases=200 if not thorough else 2000, extra_cov=extra)


def replay(rp, scratch):
    return sup.generic_replay(rp, scratch, "vh-ffi")
