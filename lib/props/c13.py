"""C13 — M2 / skin / anim files survive write→parse, also across version conversion (DESIGN.md §6 C13)."""
import sup

RULE = ("one case = one generated object. M2 models: header version Vanilla(256)/TBC(260)/WotLK(264)/Cataclysm(272)/MoP(272) x an emptiness pattern over 29 "
        "sections (each empty / one / many; all-empty, all-one, all-many plus random mixes, so several variable-size sections are populated at once) x key-frame "
        "density (none/sparse/most/all tracks carry ranges+timestamps+values, 0/1/many entries, occasionally shared between bones) x array sharing inside a section "
        "(private / some / most / every track references the time-stamp, range or value array of an earlier track of the same section - particle and ribbon emitters, "
        "texture/colour/transparency animations, events, attachments, cameras, lights - under one original offset, as the parser returns shared arrays) x extreme floats (+-0, subnormals, "
        "+-inf, NaN payloads) x names of length 0/1/255/256/1000-5000. Per model: write -> independent walker -> parse -> projection equality -> second write "
        "byte-identical -> convert(v->v) unchanged -> convert to each other version, write, walk, parse, compare the content both versions can represent (incl. the "
        "number of external skin profiles between versions >= 264). A second family (kind m2-shared) takes one track-bearing section at a time with many elements whose "
        "tracks all (or mostly) share arrays while every other track-bearing section has one element, per version. Skins: "
        "old layout and new layout (version 1-3) x 0/1/many per array, typed parser + auto-detecting SkinFile::parse, conversions between layouts. Anim: modern "
        "(MAOF) and legacy objects, conversions between them. A case carries at most one 'risk' feature (a structural trigger predicate of an already triaged "
        "defect); cases with a risk report under the single signature risk=<predicate>, the clean sub-space is checked strictly under precise signatures. "
        "Other ways in and out (sampled): save() to a path in the scratch directory (every other time over a longer file) must leave the bytes of the in-memory "
        "write, and M2Model::load / load_legacy, SkinG::load / SkinFile::load / load_skin, AnimFile::load / load_with_version must give what the in-memory parse of "
        "those bytes gives; AnimFile::parse_with_format / AnimParser::parse_with_format with the file's own format = the auto-detected parse; parse_validated = "
        "parse + validate(); optimize_memory -> write -> parse = the optimised object; M2Model::parse_embedded_skin / parse_all_embedded_skins over written "
        "models <= 260 = embedded skin 0 of the model; write into a Cursor that already holds data in front of the start position and/or from it on: the stretch "
        "from the start position is the fresh write and the bytes in front stay. MD20 header versions behind MoP (WoD 275, Legion 276, BfA 280, Shadowlands 290, "
        "Dragonflight 300, TheWarWithin 310; models without particle emitters) go through the same round-trip / rewrite / convert oracles, and clean classic "
        "models without particle emitters are converted to one of them. "
        "distinct = distinct (kind, version/layout, risk, emptiness pattern, share mode) tuples whose object the writer accepted.")
ASSUME = [
    "an object is 'accepted by the writer' iff write returns Ok; Err is tallied (writer_rejected), a panic is reported",
    "generated objects are internally consistent: every track with count>0 has its payload in the raw key-frame list under the same (fake) original offset; "
    "tracks that share an array carry the same original offset and the same bytes, and only arrays of equal element size are shared; "
    "vertex bone indices reference existing bones; skin bone_indices length is a multiple of 4; bounding data lengths are multiples of the element size",
    "version-dependent optional fields are generated in the form the parser produces for that version (seed elements are parsed from zero bytes, then edited by field assignment)",
    "across a conversion only fields that exist in both versions' records are compared (see projection_exclusions)",
]
EXCLUSIONS = [
    "locator offsets of every (count, offset) pair and the original_*_offset keys of preserved key-frame data: masked (they legitimately move); counts and payload bytes are compared",
    "M2Bone.unknown[2]: no on-disk storage in any version (parser always yields [0,0]; generated as [0,0])",
    "M2Camera.id/flags before 264, M2Bone.bone_name_crc before 260, M2Track.ranges from 264 on, M2RibbonEmitter.texture_slice/variation before 272: the record has no such field "
    "in that version; generated in the parser's canonical form and excluded across conversions that cross the boundary",
    "M2Animation end_timestamp/replay (<=256 only) and extents/next_animation/aliasing (>256 only): excluded across conversions that cross the 256/260 boundary",
    "embedded skins (views) across conversions to/from >=264: not representable (external .skin files); header.num_skin_profiles across conversions that cross the 264 boundary "
    "(between two versions >= 264 it is compared)",
    "embedded-skin submesh records across the 260 boundary: only the record count and the leading 16 bytes (eight u16 fields common to the 32- and 48-byte layouts) are compared",
    "ribbon texture/material index arrays, particle model-filename / tile-coordinate arrays, SkinHeader.name, texture_flipbooks, color_replacements, playable_animation_lookup, "
    "blend_map_overrides, texture_combiner_combos, texture_transforms: the in-memory objects have no storage for their payload and the writer emits none; generated empty",
    "legacy-only raw blobs of M2RawData (transparency, texture_animations, color_animations, render_flags, attachments, events, lights, cameras, ribbon_emitters, particle_emitters, "
    "views_data as Vec<u8>): never read by the parser nor written by the writer; left empty",
    "AnimEntry.offset/size and AnimHeader.anim_entry_offset: locators, recomputed by the writer; bone_id of an anim bone without any track: not stored on disk (generated 0)",
    "chunked MD21 (Legion+) models: the crate has no MD21 writer, nothing to round-trip (recorded as unsupported)",
    "header versions above 272: no particle emitters (their record layout above 272 is not in the independent walker's tables); the optional tail of a particle "
    "emitter record (fallback model, file data ids, encryption, multi-texture parameters, initial state, physics) is compared only between versions of one record "
    "class (<= 272 / 273-279 / >= 280); a converted model may carry any header number the library itself maps to the requested version (275 for Legion)",
    "embedded-skin accessors: profile 0 only (parse_embedded_skin reads the first ModelView for every index by design), indices / triangles / sub-mesh records "
    "(leading 16 bytes before 260, whole record from 260 on) / batches; not offered by the library for revisions 261-263; extract_embedded_skin_bytes has no stated "
    "content and is tallied only; parsing from a stream position other than 0 is not demanded (offsets in these formats are absolute file positions)",
]


def run(tier, seed, scratch, t0):
    return sup.simple_check("C13", "vh-formats", "c13", tier, seed, scratch, t0, "exploration", RULE, ASSUME,
                            nshards=16, case_timeout=120, min_cases=200,
                            extra_cov={"projection_exclusions": EXCLUSIONS})


def replay(rp, scratch):
    return sup.generic_replay(rp, scratch, "vh-formats")
