"""C14 — ADT terrain: build -> serialise -> parse, stable re-serialisation, chunk framing and offset tables (DESIGN.md §6 C14)."""
import sup

RULE = ("one case = one builder input x target version: texture/model/WMO name lists (0..n, shared directory prefixes, prefix stems, duplicates, mixed-case "
        "extensions, 2-/3-/4-byte UTF-8 characters (byte length != character count; one isolated case per version puts such names in front of ASCII ones in every list), 180-300 byte names), doodad/WMO placements, 0 / 1 / 17 / 256 / arbitrary 2..255 MCNK chunks whose 11 optional sub-chunks "
        "(MCVT MCNR MCLY MCRF MCAL MCSH MCLQ MCCV MCSE MCLV MCBB) follow a covering array (pairwise quick, 3-wise thorough) plus random patterns, MCLQ height ranges "
        "sloped / perfectly level (min == max) / sea level 0,0 / the widest accepted range -10000..10000, MH2O on arbitrary "
        "chunk subsets (1..3 instances, 4 vertex formats, bitmaps, attributes), MFBO, MTXF, MAMP, MTXP, blend mesh, x VanillaEarly..MoP; tile-level axes "
        "(version, MCNK count, names, placements, 6 root toggles masked by what the version can carry) come from a pairwise covering array + random points + "
        "18 kinds of deliberately invalid input (tallied 'rejected' when the builder refuses them; compared like any other when it accepts them). "
        "Oracle: (a) P(parse(to_bytes(build(b)))) == P(b) field by field (supplied MCNK by index; nothing is required of auto-generated filler chunks but framing); "
        "(b) for rounds 1..4: x' = to_bytes(from_root_adt(parse(x))) parses to the same P and len(x') <= len(x); (e) parse -> modify -> rebuild: on the parsed tile "
        "1..6 terrain chunks are edited (drop one present sub-chunk / add one absent / new random pattern / same pattern with new contents, the parsed header with its now "
        "stale offsets, sizes and counts left in place; the all-sub-chunks isolated case drops each of the 11 kinds from one chunk each) and each present root-optional "
        "chunk is removed with probability 1/3, then to_bytes(from_root_adt(edited)) must parse to P(edited) and pass the walker; (c) an independent walker on every produced file: "
        "top-level framing tiles the file, MCNK sub-chunk framing tiles every MCNK payload behind the 128-byte header, every MHDR slot (relative to MHDR data) and "
        "every MCNK header slot (relative to chunk start) points at a chunk of the named type (and is not 0 while such a chunk exists), every used MCIN "
        "(offset,size) pair points at a distinct MCNK whose size agrees, every MMID / MWID entry is the byte offset of the start of a name inside MMDX / MWMO and entry i "
        "resolves to name i of the list the file was written from; (x) conversion: to_bytes(from_root_adt(parsed, Some(target))) for 2 (quick) / 3 (thorough) / all 6 (isolated cases) "
        "target versions passes the walker and parses to the source content in every field the target can carry (MFBO from TBC, MH2O / MTXF from WotLK, MAMP / MCLV from Cataclysm, "
        "MTXP / blend mesh / MCBB from MoP; an all-zero MFBO or MTXF the conversion adds where the source has none is no difference; nothing is demanded of fields the target cannot carry); "
        "(p) other entry points must agree with the ones above: AdtBuilder::from_parsed(parsed).build() -> to_bytes (round 1 and, on every second case, the edited tile) either writes the bytes "
        "from_root_adt(parsed, None) writes or is itself walked, parsed, compared and held to the size limit; parse_adt_with_metadata yields the tile parse_adt yields, with metadata version == tile "
        "version, file type root, chunk count and every (chunk id, offset, size) of its discovery record equal to the walker's frames; write_to_file -> AdtSet::load_from_path -> merge (every second case) on the lone "
        "root file yields the tile parse_adt yields; the texture list enters the builder by add_texture, by one add_textures call, or by both (a third of the cases each); the edit stage reaches "
        "the parsed tile only through RootAdt::*_mut (mcnk_chunks_mut, and root-level edits through textures_mut / models_mut / wmos_mut / doodad_placements_mut / wmo_placements_mut / "
        "water_data_mut / flight_bounds_mut / texture_flags_mut / texture_amplifier_mut / texture_params_mut: rename or append a name, replace / append / remove a placement, new levels on or "
        "drying of a wet chunk, new planes / flags / amplifier / height parameters). distinct = distinct (version, MCNK-count class, root-optional pattern, names class, "
        "placement class, validity kind) tuples whose build succeeded; rejected inputs are trivial.")

ASSUME = [
    "floats are compared by bit pattern (no NaN is generated)",
    "the prototype objects for repo types without Default (McnkChunk/McnkHeader, VertexNormal, LiquidVertex, placements, MTXF/MAMP/MTXP) come from a seed file "
    "written by the harness's own encoder in client layout and parsed with parse_adt; if that parse fails every case is inconclusive (run = broken), never held",
    "header flag bits are generated consistent with the supplied sub-chunks (0x01 iff MCSH, 0x40 iff MCCV), ref counts consistent with MCRF, MCLQ height range valid, "
    "MH2O rectangles inside the 8x8 grid, bitmaps only within width*height bits, vertex grids exactly on the instance rectangle: the parser keys on these, and the "
    "statement does not ask inconsistent tiles to survive",
]

EXCLUSIONS = [
    "detected version label (RootAdt.version): not content; several targets are indistinguishable by design (TBC without MFBO == Vanilla). Observed mapping is in counters detected|target->detected",
    "offset/size/count fields the serializer computes (MHDR, MCIN, MMID/MWID, MCNK ofs_*/size_*/n_layers/n_snd_emitters, MH2O header/instance offsets): checked by the walker, not as content",
    "MCNR 13 trailing pad bytes: framing, the serializer always writes zeros",
    "MCLQ.liquid_type: not serialised, recomputed from MCNK header flags (which are compared)",
    "MCNK header 'unused' and '_padding' fields: not content",
    "MTXF absent in the input and an all-zero MTXF of texture-count length in the parsed tile are treated as equal (the serializer writes a neutral MTXF for WotLK+ on its own)",
    "absent list-like sub-chunk == empty list (MCLY, MCRF, MCRD, MCRW, MCAL, MCSE, MCBB); an all-empty MH2O == no MH2O; MH2O attributes are only generated on chunks that have an instance",
    "never generated (still compared, expected absent): MCMT, MCRD, MCRW (split-file-only sub-chunks; the builder writes root files), MCDD (post-MoP), "
    "the high-resolution-holes flag (its 8 bytes double as MCVT/MCNR offsets), McvtChunk/MccvChunk/... with a vertex count other than 145, more than 256 MH2O entries",
    "conversions (from_root_adt with a target version): content the target version cannot carry is not compared (tallied in xver_fields_not_carriable_stripped / _kept); the detected version of the "
    "converted file is not content (counters xver_detected|target->detected); no size limit is demanded of a conversion",
    "AdtSet / merge_split_files with harness-encoded _tex0 / _obj0 / _lod companion files: split files are not builder output, not generated",
    "MCIN size convention: the statement does not fix whether the size includes the 8-byte chunk header; either is accepted if used consistently within a file "
    "(client files include it; observed convention is in counters mcin_size_is_payload / mcin_size_is_payload_plus_header)",
    "all-zero 8-byte records between MCNK header and first sub-chunk frame correctly (empty magic, size 0) and are tallied (mcnk_null_pad_records), not flagged: "
    "the library writes a 136-byte MCNK header where the format has 128",
]


def run(tier, seed, scratch, t0):
    def post(res):
        pats = res.extras.get("subchunk_patterns_seen") or []
        res.extras["distinct_subchunk_patterns"] = len(pats)
        res.extras["subchunk_patterns_seen"] = f"{len(pats)} distinct 11-bit patterns"
        tops = res.extras.get("version_x_root_optional_patterns_seen") or []
        res.extras["distinct_version_x_root_optional_patterns"] = len(tops)
        res.extras["version_x_root_optional_patterns_seen"] = f"{len(tops)} distinct (version, 6-bit pattern) pairs, incl. the rejected incompatible ones"
    return sup.simple_check("C14", "vh-formats", "c14", tier, seed, scratch, t0, "exploration", RULE, ASSUME,
                            nshards=16, case_timeout=240, min_cases=60 if tier == "quick" else 1000, post=post,
                            extra_cov={"excluded_from_comparison": EXCLUSIONS})


def replay(rp, scratch):
    return sup.generic_replay(rp, scratch, "vh-formats")
