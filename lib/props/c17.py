"""C17 — DBC tables survive write->parse and all access paths agree (DESIGN.md §6 C17)."""
import os

import sup

RULE = ("one case = one generated table: schema of 1..24 fields over all 9 field types (8/16/32-bit signed/unsigned, float, bool, string), arrays of 2..8, "
        "key field first/middle/last/absent x uint32/int32, record count in {0,1,2,3,17,255,256,1000,9999,10000}, keys sorted/unsorted/duplicate/sparse-extreme "
        "(negative for int32), strings from a pool with the empty string, duplicates, suffix pairs and non-ASCII UTF-8; cases 0..6 are fixed minimal tables. "
        "The harness's own WDBC encoder (5 string-block layouts: deduplicated, shuffled with unreferenced strings, duplicated copies, suffix-shared, packed without the NUL in front) writes the table; "
        "DbcParser eager (+ cached strings), LazyDbcParser iterator and indexed, MmapDbcFile (parser and lazy over the mapping), parse_records_parallel must each "
        "return the model's values (floats bitwise, strings as text) and agree pairwise; DbcWriter::write_records of a parsed set is re-parsed and compared with the "
        "model, its size checked against 20 + n x record_size + string block and its string block walked for repeated strings; once that single write is right the writer "
        "is driven through longer histories on one stream (the same set twice on one DbcWriter; a smaller table of the same schema, then the full one; a stream that already "
        "holds an older table with the position at its end / inside it; an empty stream positioned past its end; a read+write file first read by DbcParser::parse, then "
        "rewritten through the same handle): the stream must start with the table written last and be exactly that long unless longer content was there before "
        "(all six histories for tables up to 300 records, two of them for larger ones); get_record_by_key and "
        "create_sorted_key_map + get_record_by_key_binary_search are queried for every present key and ~100 absent keys on the eager, parallel, mmap and rewritten sets. "
        "Round 8: the schema's key field is declared by index, set_key_field(name) or try_set_key_field(name) in turn (unknown names must be refused / panic as documented and leave the key alone); "
        "Record::get_value_by_name against get_value on eager, lazy and parallel records (unique names: the value at the field's index; a second eager parse with repeating names "
        "f0,f1,f2,f0,..: a value of a field carrying that name; unknown name / index past the end: nothing); StringBlock::parse(reader, offset, size) at the header's offset and "
        "CachedStringBlock::from_string_block of it resolve every reference stored in the records (two more paths in the pairwise comparison), is_string_start is compared with "
        "the block's bytes for every stored offset; schema-less access (DbcParser::parse_records, LazyDbcParser iterator + get_record, parse_records_parallel, MmapDbcFile::parser "
        "without a schema) on the table or, when it has 8/16-bit columns, on its 32-bit columns must return the little-endian words of the file, string words resolving to the "
        "table's text; the same records + string block wrapped by the harness in a WDB2 header (basic 32 bytes / extended 48 bytes / extended with index arrays) or a WDB5 header "
        "(one container per table, in turn): DbcParser::parse must return the model, and lazy / parallel (handed DbcParser::data() + header() as in the crate's examples), "
        "MmapDbcFile parser and MmapDbcFile::string_block must agree with it; key lookups on the container's eager set. "
        "quick = 7 + 900 tables, thorough = 7 + 10000 tables plus the first 1000 again under AddressSanitizer. distinct = distinct "
        "(record count, key position/type, arrays, narrow fields, strings, string-block layout) classes among tables with at least one record.")

ASSUME = ["header field count = number of columns with every array element counted (what Schema::validate requires); Bool and String occupy 4 bytes; no padding between fields",
          "an int32 key k is looked up as the u32 with the same bit pattern (Key is u32 in the API)",
          "Bool is written as 0/1 by the independent encoder (other non-zero encodings of true are not demanded)",
          "with duplicate keys any record carrying the key is accepted",
          "path-vs-path comparison: eager against every other path element-wise, the remaining pairs through a 64-bit fingerprint of the full projection",
          "when the rewritten file is refused only because of its header field count, that field is repaired in a copy so records and strings are still compared (the refusal itself is reported)",
          "writer histories: write_records is taken to (re)write the table at the start of the caller's stream (it seeks to 0 itself); it does not truncate, so content that was "
          "longer than the new table stays behind it - the histories only use older tables that are not longer; a stream that differs byte-wise from a single write is still "
          "accepted when it parses back to the model (counter writer_history_streams_equivalent_not_identical)",
          "schema-less reading takes every column as a 32-bit word, so it is only judged on tables whose columns are all 32 bits wide (for other tables: on the sub-table of their 32-bit columns)",
          "with repeated field names get_value_by_name may return the value of any field carrying the name (the code returns the first; not documented, not demanded)",
          "containers: WDB2 header = WDBC fields + table hash, build, timestamp (32 bytes; the eight fields Wdb2Header::parse itself reads) and, for build > 12880, min id, max id, locale, copy-table size (48 bytes) "
          "+ (max id != 0) 6 bytes per id of index/string-length arrays; WDB5 = 48-byte header followed directly by the records, as the crate models it - the field-structure block of real WDB5 files "
          "is not modelled by the crate and not demanded; one verdict per (path, container), first difference reported; in the quick tier tables over 1000 records take part in the schema-less and "
          "container legs one time in three",
          "Miri cannot execute mmap; the mmap path is exercised natively and, in the thorough tier, under ASan (leak detection off)"]

ASAN_LIMIT = 1000


def _asan_slice(res, tier, seed, scratch):
    """Thorough only: the same worker under AddressSanitizer for a slice of the cases (mmap path)."""
    info = {"requested_cases": ASAN_LIMIT}
    try:
        binpath = sup.build("vh-formats", "c17", flavor="asan")
    except sup.Broken as ex:
        res.add_inconclusive("asan-build-failed")
        res.notes.append(("ASan build failed, mmap slice not run: " + str(ex))[-900:])
        info["status"] = "build-failed"
        return info
    ares = sup.Result("C17")
    env = {"ASAN_OPTIONS": "abort_on_error=1:halt_on_error=1:detect_leaks=0:symbolize=1", "RUST_BACKTRACE": "0"}
    sup.run_workers(ares, binpath, ["--limit", str(ASAN_LIMIT)], tier, seed, scratch, nshards=sup.NCPU, case_timeout=600.0,
                    crash_is_violation=True, env_extra=env, total_timeout=3000.0, label="asan-")
    # an ASan report kills the worker (SIGABRT with "AddressSanitizer" on stderr) -> crash|asan-report|... ; every other
    # violation seen under ASan carries the same semantic signature as in the native run
    for sig, w in ares.violations.items():
        for _ in range(ares.viol_counts.get(sig, 1)):
            res.add_violation(sig, w["what"], w["detail"], w["replay"])
    for why, n in ares.inconclusive_reasons.items():
        for _ in range(n):
            res.add_inconclusive("asan:" + why)
    res.notes.extend("asan: " + x for x in ares.notes[:5])
    res.crashes += ares.crashes
    c = ares.counters
    info.update({"status": "ran", "cases": ares.cases, "verdicts": ares.verdicts, "worker_crashes": ares.crashes,
                 "asan_reports": sum(n for s, n in ares.viol_counts.items() if s.startswith("crash|asan-report")),
                 "mmap_paths_compared": c.get("path_vs_model|mmap", 0) + c.get("path_vs_model|mmap-lazy", 0),
                 "records": c.get("records", 0), "file_bytes": c.get("file_bytes", 0)})
    if ares.cases == 0:
        res.add_inconclusive("asan-slice-observed-nothing")
    return info


def run(tier, seed, scratch, t0):
    binpath = sup.build("vh-formats", "c17")
    res = sup.Result("C17")
    sup.run_workers(res, binpath, [], tier, seed, scratch, nshards=sup.NCPU, case_timeout=180.0, total_timeout=3000.0)
    extra = {}
    if tier == "thorough":
        extra["asan_slice"] = _asan_slice(res, tier, seed, scratch)
    else:
        extra["asan_slice"] = {"status": "not-run-in-quick-tier"}
    c = res.counters
    extra["summary"] = {
        "tables": c.get("tables", 0), "records": c.get("records", 0),
        "paths_vs_model": sum(n for k, n in c.items() if k.startswith("path_vs_model|")),
        "path_pairs_compared": c.get("path_pairs_compared", 0),
        "values_compared": sum(n for k, n in c.items() if k.startswith("values_compared|")),
        "key_lookups": sum(n for k, n in c.items() if k.startswith("key_lookups|") and not k.endswith("no-key-field")),
        "written_files": c.get("written_files", 0),
        "container_files": sum(n for k, n in c.items() if k.startswith("container_files|")),
        "container_paths_vs_model": sum(n for k, n in c.items() if k.startswith("container_path_vs_model|")),
        "schemaless_paths_vs_file": sum(n for k, n in c.items() if k.startswith("raw_path_vs_file|")),
        "by_name_lookups": sum(n for k, n in c.items() if k.startswith("by_name_lookups|")),
        "standalone_string_blocks": c.get("standalone_string_blocks", 0),
        "keys_declared_by_name": c.get("schema_key_declared_by|name", 0) + c.get("schema_key_declared_by|try-name", 0),
    }
    return sup.finish(res, tier, seed, "exploration", RULE, t0, assumptions=ASSUME,
                      min_cases=100, extra_cov=extra)


def replay(rp, scratch):
    return sup.generic_replay(rp, scratch, "vh-formats")
