"""C16 — BLP encode -> parse is exact; lossless encodings preserve pixels (DESIGN.md §6 C16)."""
import sup

RULE = ("one case = (image size, content class, target, mipmaps on/off, mip filter[, DXT algorithm]); the image itself is drawn from the case's PRNG stream. "
        "Sizes: the 12 of DESIGN {1x1,1x2,2x1,3x5,7x8,16x16,17x31,64x1,1x64,255x256,512x512,300x200} + {2x2,4x4,8x8,5x7,12x9,33x63,100x127,256x64,8x2,5x1}; contents {all transparent, "
        "opaque (Rgb8 or Rgba8), <=256 colours with binary / edge-value / arbitrary alpha, >256 colours noise, gradients}; 25 targets = BLP0/BLP1 x {raw1 x alpha 0/1/4/8, jpeg +-alpha} "
        "+ BLP2 x {raw1 x 4, raw3, jpeg +-alpha, DXT1/3/5 +-alpha}. quick = grid sizes x contents x targets x (mip off | mip on x {nearest, triangle, lanczos3}; one filter for the three "
        "large sizes) + every shape (w,h) in 1..9 x 1..9 x targets x mip on/off + 3000 random-size cases; thorough = 2 images per grid point with all 5 filters + every shape in "
        "1..20 x 1..20 + 150000 random-size cases (non-square powers of two up to 512, one side 1..3, around multiples of 4, same-octave non-square, up to 200; 5 filters, 3 DXT "
        "algorithms). Oracle per case: x = image_to_blp(img); y = parse_blp(encode_blp(x)) (BLP0: encode_blp0 + parse_blp_with_externals); (a) y == x; (b) with mipmaps the number of "
        "levels of x and y, header.mipmaps_count()/mipmap_size(i), every level's stored byte size and decoded dimensions follow halving both sides (never below 1) down to 1x1, count "
        "from the larger side; (c) an independent reader of the raw header bytes checks every non-empty (offset,size) pair lies inside the file behind the header/palette/JPEG header, "
        "pairs pairwise disjoint, one pair per level, each holding exactly that level's bytes (BLP0: external file count and sizes); (d) raw3: blp_to_image level 0 == source RGBA "
        "exactly; raw1: each decoded colour is in the 256-entry palette read from the file bytes and is the entry its stored index selects, decoded alpha is one of the two "
        "representable levels neighbouring source*(2^d-1)/255, a function of the source alpha, monotone; every level below level 0 of a raw1/raw3 chain is decoded too (palette "
        "membership + stored index, alpha / channel values inside what a resampling of the source can give); JPEG/DXT: structure only. A case is trivial if the converter or encoder "
        "refuses the combination (tallied per target; none did). distinct = distinct (target, mip, WxH, content, filter[, source variant]) tuples run. "
        "Further legs on every case: (e) source images of the other DynamicImage variants {Luma8, LumaA8, Luma16, LumaA16, Rgb16, Rgba16, Rgb32F, Rgba32F} x 25 targets x mip on/off "
        "(quick 3 rounds = 1200 cases over 15 small sizes, thorough 40 rounds incl. random sizes; 16 bit samples with/without rounding jitter, float samples partly outside [0,1]) go "
        "through all of (a)-(d) with the image crate's own to_rgba8() view as the source pixels (source_variant|*); (f) entry points: for BLP1/BLP2 load_blp_from_buf, "
        "parse_blp_with_externals(no_mipmaps) and parse_blp_with_externals with a callback offering unrelated external files return the structure parse_blp returns; for BLP0 main "
        "files without their external files parse_blp, parse_blp_with_externals(no_mipmaps) and load_blp_from_buf agree (all refuse with the same error kind, or all return the same "
        "structure) (entry_point_*, blp0_without_externals_*); (g) BlpImage::mipmap_info() has one entry per stored level, numbered in order, with the halved dimensions, their "
        "product, and the stored size of the level as held in the structure and as the file's table / external file length says (mipmap_info_*); (h) JPEG targets: "
        "BlpJpeg::full_jpeg(i) of every stored level decodes with the image crate to the level's dimensions and is None beyond the last level (full_jpeg_*).")
ASSUME = [
    "'quantised to the declared depth' is read as: the decoded alpha is the 8-bit expansion of floor or ceil of a*(2^d-1)/255 (this admits floor, round and ceil), the same for equal "
    "source alphas, and monotone. Observed in convert/raw1.rs: 8 bit exact, 4 bit round-to-nearest (expanded as nibble*17), 1 bit 'alpha > 0' (= ceil); counters "
    "alpha_d*_consistent_with_{floor,round,ceil} report how many pixels agree with each rule",
    "source pixels of a DynamicImage are its to_rgba8() view: exact for Rgba8 / Rgb8 sources; for Luma / 16 bit / float sources it is the image crate's own conversion (grey -> r=g=b, "
    "no alpha -> 255, 16 bit and float rounded/clamped to 8 bit), which is what 'the source pixels' of an 8-bit BGRA / palettised texture can mean for such an image; the "
    "lower-level range laws carry over because that conversion is monotone per channel",
    "BLP0 keeps every level, level 0 included, in external files: a BLP0 main file parsed without externals (parse_blp / no_mipmaps / load_blp_from_buf) has no level 0 to compare, "
    "so only the agreement of the three entry points is demanded there (observed: all refuse with MissingImage)",
    "raw1 additionally requires decoded colour == palette[stored index] (definition of a palettised encoding; stronger than bare membership, cannot fail for a correct decoder)",
    "the exact raw3 pixel law and the exact raw1 alpha law (neighbouring level, function of the source alpha, monotone) are checked on level 0; the source of the levels below is the "
    "library's own resampling, so for them only resampler-independent consequences are demanded: raw1 colours are entries of the same palette and the entry the level's stored index "
    "selects; raw1 alpha is a representable level and - for filters without negative weights (nearest, triangle, gaussian) or a constant source plane - lies between the "
    "quantisations of the smallest and largest source alpha; with the nearest filter it is the quantisation of an alpha that occurs in the source; raw3 channels lie inside the "
    "source channel's range under the same filter condition (counters lower_level_*, raw1_lower_level*, raw3_lower_level*)",
    "an encoder Err of kind InvalidOffset / InvalidMipmapSize on a texture produced by image_to_blp counts as a violation (the converter's own layout is inconsistent); "
    "other converter/encoder errors are refusals and are tallied (convert_refused|*, encode_refused|*)",
    "JPEG and DXT are lossy: only structure (level count, sizes, decodability, decoded dimensions) is checked",
    "the two triaged defects (known_findings.d/C16.jsonl) are reported once each under a root-cause signature; their downstream consequences are undone on a copy of the parsed "
    "texture only where the exact shape is present (trailing empty levels beyond the converter's short chain; a DXT level that is the ceil(w*h/16)-block prefix of the encoded "
    "level; BLP0 MissingImage(k) with k = stored levels) and everything else in those cases is still compared strictly; counters d1_*, d2_*, cases_cut_short_by_known_defect and "
    "structures_equal_modulo_known_defects say how often",
]


def _post(res):
    cl = res.extras.get("wmod8_hmod8_alphadepth_classes") or []
    res.counters["distinct_wmod8_hmod8_alphadepth_classes"] = len(cl)
    # targets for which the converter/encoder never produced anything
    seen = {}
    for k, n in res.counters.items():
        for pre in ("convert_ok|", "convert_refused|", "encode_ok|", "encode_refused|"):
            if k.startswith(pre):
                seen.setdefault(k[len(pre):], {})[pre[:-1]] = n
    res.extras["targets_always_refused"] = sorted(t for t, d in seen.items() if not d.get("encode_ok"))
    res.extras["targets_exercised"] = len([t for t, d in seen.items() if d.get("encode_ok")])


def run(tier, seed, scratch, t0):
    return sup.simple_check("C16", "vh-formats", "c16", tier, seed, scratch, t0, "exploration", RULE, ASSUME,
                            nshards=16, case_timeout=240, min_cases=200, post=_post)


def replay(rp, scratch):
    return sup.generic_replay(rp, scratch, "vh-formats")
