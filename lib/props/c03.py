"""C03 — lossless codecs invert exactly, never expand, accept their own output (DESIGN.md §6 C03)."""
import sup

RULE = ("one case = (selector, content class, chunk of the length ladder); ladder = 0..40, 127..131, 255..259, 2^p +-{0,1,2} for p=6..17 (quick) / 6..21 (thorough); "
        "10 content classes; selectors zlib, bzip2, LZMA, sparse, PKWare, sparse+zlib, sparse+bzip2 (+ huffman/implode expected to refuse, + 12 ADPCM combinations incl. ADPCM+PKWare 0x48/0x88 "
        "for length/interleaving: sine, ramp, loud-onset transients in left/right/both channels, noise); in every tier 4 large units per selector (0.7..2 MiB, crossing codec block sizes), "
        "break-even inputs, ratio-window inputs (constant fills whose length is steered to len/compressed = T*c-1, T*c, T*c+1, mid-window, T*c+c-1, (T+1)*c, (T+1)*c+1 for the whole-number limits T in {500, 999, 1000, 2000} of the default safety policy; counters ratio_window_inputs|T|pos), and 560 repeated decompress() calls (> 1 GiB cumulative) that must keep answering identically. Oracle: len(out) <= len(in); out == in or out[0] == selector; decompress and decompress_secure (fresh SessionTracker) return the "
        "input. Selector 0 (none): every class x ladder length (+ two large units) is stored as given and comes back through decompress / decompress_secure with selector 0 (counters none_*). "
        "Threads: 8 (quick) / 12 (thorough) threads run round trips of every lossless and ADPCM selector (PKWare excluded) against ONE shared SessionTracker, legacy decompress() calls in between, workload <= half the session cap: "
        "every call must return the bytes the same call returns alone and none may fail that succeeds alone (counters threads_*). distinct = distinct (selector, class, chunk) triples executed.")
ASSUME = ["native run only (the code under test has a 30 s wall-clock decompression limit)", "compress -> Err is allowed and tallied per selector"]


def run(tier, seed, scratch, t0):
    return sup.simple_check("C03", "vh-mpq", "c03", tier, seed, scratch, t0, "exploration", RULE, ASSUME,
                            nshards=16, case_timeout=240, min_cases=100)


def replay(rp, scratch):
    return sup.generic_replay(rp, scratch, "vh-mpq")
