"""C18 — WDT / WDL write→parse, tile↔world coordinates, version conversion (DESIGN.md §6 C18)."""
import sup

RULE = ("cases are a deterministic function of (tier, seed, index). 3 coordinate cases enumerate all 64x64 tiles (clauses corner / centre / range). "
        "WDT: one case = one map definition = version (Classic..Dragonflight, 10) x grid shape (empty, full, each corner alone, diagonal, asymmetric L, random 1 % / 50 %) x "
        "map type (terrain / WMO-only with MWMO name + MODF placement) x MAID (BfA; its root-ADT ids either name exactly the present tiles, only some of them, none at all "
        "- the all-zero table convert_wdt itself creates - or some absent tiles as well) x MPHD flags/fields; pass 0 = terrain maps as the version's format has them, "
        "pass 1 = WMO-only maps, further passes = random variants. Per case: write, independent chunk walk (MAIN/MAID grid order, MPHD flag word, chunk presence), "
        "parse, field-wise and PartialEq comparison with the harness's own model, second write byte-identical, convert_wdt to all 10 versions (MAIN equal in memory and "
        "after write->parse), and on top of each of those results a second convert_wdt to all 10 versions (chains v->t->u; MAIN equal in memory, and after write->parse for the "
        "way back v->t->v). Every map is also built a second time through the setter entry points (MainEntry::set_has_adt, MphdChunk::set_file_data_ids) and must be the same "
        "object; the parsed file's accessor views (is_wmo_only, get_tile, count_existing_tiles, MaidChunk::has_tile / get_root_adt_ids) are compared with the model grid; the map is "
        "written into a stream after 1..4096 foreign bytes and read back from that position; maps with file ids are also taken through clear_file_data_ids (round trip of the "
        "map without its id table, ids put back through the setter). WDL: version (Vanilla..Dragonflight and Latest, 10; Latest is built with WdlFile::new()) x grid shape x holes (none/half/all tiles) x model chunks (MWMO/MWID/MODF or ML**); write from two "
        "independently built objects, MAOF resolved by the walker, parse by two fresh versioned parsers and the default parser, projection compared as sorted maps, "
        "second write from each parsed instance, convert_wdl_file to all 10 versions. Holes of one of the two builds are set cell by cell through HolesData::set_hole (from new(), "
        "from all_holes(), or every cell first the wrong way round) and HolesData::has_hole is compared with the model grid for every cell before and after the round trip; one "
        "parser object is carried from version to version with set_version and must write and parse like a fresh with_version parser (source file and every converted file); the file "
        "is written into a stream after 1..70000 foreign bytes and must come back either as a file of its own or by a parse started at that position. distinct = distinct (format, version, grid, optional-chunk configuration) classes; "
        "every case writes and parses at least one file, so every executed case is non-trivial.")
ASSUME = [
    "version_config / WdlFile.version guessed by the reader is not content (it is not stored in the file); it is counted, not compared (WDL: compared only for the versioned parser)",
    "MPHD: the seven words after the flag word are compared as file ids when the MAID flag is set and as something/unused otherwise (the struct exposes the same bytes under both names)",
    "map definitions are generated inside what the version's format can carry (harness's own era table): MAID only for BfA, WDL holes only from Wotlk, MWMO/MWID/MODF only Wotlk..Wod, "
    "ML** only Legion, WDL placements only together with names, holes only for tiles with heights; names are non-empty and NUL-free; floats are finite",
    "a terrain map of a Cataclysm+ version carrying an MWMO chunk (not expressible in that version) may come back with or without the chunk; both outcomes are counted",
    "conversion: 'tile data' = WDT MAIN entries / WDL heights (+ holes when both versions carry them); a refusal to convert holes into Vanilla is not a loss; "
    "MAID cannot exist before BfA, so its removal/creation by convert_wdt is not compared",
    "the file-id table and MAIN are independent content: a BfA map whose MAID root ids do not mirror MAIN's presence bits is a valid map definition (the converter's own upgrade "
    "produces one), and MAIN is the tile data a conversion must keep",
    "WDL version Latest is the auto-detecting parser: the version label it puts on a parsed file (Latest, or Legion when ML** chunks are present) is counted, not compared",
    "a WDL file written at a non-zero stream position: MAOF offsets may count from the start of the written bytes or from the start of the stream; the API does not say which, "
    "so either way of getting the content back satisfies the check (observed: they count from the start of the written bytes, so only the bytes taken as a file of their own parse)",
    "WDT get_tile: coordinates, flags and area id are compared; its has_adt (MAID over MAIN) is the library's reading and is not compared. HolesData mask layout (word y, bit x, "
    "cleared bit = hole) is the one the library documents for hole_masks",
    "a BfA+ map without file-id table (after clear_file_data_ids) is a valid definition of those versions (8.0 wrote such files)",
    "clause 'range' (world_to_tile stays inside 0..63 for points up to the map's outermost edge) is the harness's reading of 'returns the same tile' for the last row/column",
]


def run(tier, seed, scratch, t0):
    return sup.simple_check("C18", "vh-formats", "c18", tier, seed, scratch, t0, "exploration", RULE, ASSUME,
                            nshards=16, case_timeout=240, min_cases=100,
                            extra_cov={"exhaustive_subspaces": ["all 64x64 tiles for tile_to_world/world_to_tile (clauses corner, centre, range)"]})


def replay(rp, scratch):
    return sup.generic_replay(rp, scratch, "vh-formats")
