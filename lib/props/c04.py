"""C04 — hashing and encryption equal the MPQ algorithms and are mutually inverse (DESIGN.md §6 C04)."""
import sup

RULE = ("cases: 0 = all 1280 crypt-table entries + both fold tables (direct and behavioural); 1..180 = every &str of <=2 bytes "
        "(empty, 128 ASCII, 128^2 ASCII pairs, all 2-byte UTF-8 scalars), every 3-byte and a stride of the 4-byte UTF-8 scalars, x 4 hash types, "
        "vs an independent reference hash; 200.. = random longer names with case/slash variants and wrapper agreement; 1000.. = cipher laws "
        "(dword API inverse and equal to the reference cipher, byte wrappers inverse, decrypt_dword) for every length 0..17 x 77 keys x 6 buffers; "
        "2000.. random buffers up to 64 KiB; 3000.. het_hash vs lookup3 hashlittle2 of the folded name for 7 widths; 4000 = the hash the BET writer stores. "
        "distinct = distinct case classes (first byte / lead byte / key / batch) executed; every case is non-trivial (compares at least one value).")

ASSUME = ["reference = crypt table regenerated from seed 0x00100001, HashString with ASCII-only fold, lookup3.c hashlittle2 transcribed (harness/vh-mpq/src/lib.rs)",
          "the 13 byte values that cannot occur in any &str (0xC0, 0xC1, 0xF5..0xFF) are unreachable through hash_string(&str) and covered only by the direct table comparison",
          "Jenkins fold direction (upper vs lower) is not fixed by the statement: either is accepted provided it is the same for every name",
          "key 0 is an identity in this code by construction; inverse-ness is still checked for it",
          "thorough: the table case and 16 cipher-key cases are additionally interpreted by Miri (UB, overflow and debug assertions)",
          "the byte-string hash of the non-default `simd` feature (SimdOps::hash_string_simd, SimdOps::crc32) is driven by its own worker built with --features simd (thorough: also under AddressSanitizer); the aarch64 path cannot be run on this machine"]


def _miri_slice(res, tier, seed, scratch):
    """Thorough: the cipher cases (every length 0..17 x 6 buffers, incl. the byte wrappers' tail paths) for 16 keys and the
    table case, interpreted by Miri (dev profile: overflow checks and debug assertions on). UB report => violation;
    a run that cannot be carried out => inconclusive."""
    import os
    import subprocess
    from concurrent.futures import ThreadPoolExecutor
    env = sup.cargo_env("", sup.TARGET_BASE + "-miri")
    env["MIRIFLAGS"] = "-Zmiri-disable-isolation"
    base = ["cargo", "+nightly", "miri", "run", "--offline", "-q", "-p", "vh-mpq", "--bin", "c04", "--"]
    idxs = [0] + list(range(1000, 1016))
    rb = {"property": "C04", "tier": tier, "seed": seed, "bin": "c04", "args": []}

    def one(idx):
        j = os.path.join(scratch, f"miri-{idx}.jsonl")
        wd = os.path.join(scratch, f"miri-w{idx}")
        os.makedirs(wd, exist_ok=True)
        try:
            p = subprocess.run(base + ["--tier", "quick", "--seed", str(seed), "--only", str(idx), "--out", j, "--scratch", wd],
                               cwd=sup.HARNESS, env=env, stdout=subprocess.PIPE, stderr=subprocess.PIPE, text=True, timeout=1800)
            return idx, p.returncode, p.stderr, j
        except subprocess.TimeoutExpired:
            return idx, None, "timeout", j

    # build once (serial) so the parallel runs only interpret
    first = one(idxs[0])
    results = [first]
    with ThreadPoolExecutor(max_workers=8) as ex:
        results += list(ex.map(one, idxs[1:]))
    ran = 0
    for idx, rc, err, j in results:
        if rc is None:
            res.add_inconclusive("miri-run-timeout")
            continue
        if "Undefined Behavior" in err:
            what = err.split("Undefined Behavior:", 1)[1].strip().splitlines()[0][:200]
            res.add_violation("miri-ub|c04-case-%d" % (0 if idx == 0 else 1000), f"Miri: Undefined Behavior: {what}", {"stderr": err[-1500:]}, dict(rb, only=idx))
            continue
        if rc != 0:
            res.add_inconclusive("miri-run-failed")
            res.notes.append(f"miri idx {idx}: exit {rc}: {err[-300:]}")
            continue
        before = res.cases
        res.absorb_journal(j, dict(rb, miri=True))
        ran += res.cases - before
    res.add_counter("miri_cases_interpreted", ran)


def _simd_slice(res, tier, seed, scratch):
    """The non-default cargo feature `simd` of wow-mpq carries a second implementation of the name hash (AVX2 vector code,
    `unsafe`) with a byte-string interface: compared with the reference on every byte string of <= 2 bytes (incl. invalid
    UTF-8) and on random strings around the vector thresholds at every slice alignment; thorough repeats it under
    AddressSanitizer. A build that cannot be made => inconclusive, never a verdict."""
    try:
        b = sup.build("vh-mpq", "c04_simd", features="simd")
    except sup.Broken as ex:
        res.add_inconclusive("simd-slice-not-built")
        res.notes.append(str(ex)[-400:])
        return
    sup.run_workers(res, b, [], tier, seed, scratch, nshards=4, case_timeout=120, label="simd-")
    res.add_counter("simd_slice_runs|native", 1)
    if tier == "thorough":
        try:
            ba = sup.build("vh-mpq", "c04_simd", flavor="asan", features="simd")
        except sup.Broken as ex:
            res.add_inconclusive("simd-slice-asan-not-built")
            res.notes.append(str(ex)[-400:])
            return
        before = res.crashes
        sup.run_workers(res, ba, [], "quick", seed, scratch, nshards=4, case_timeout=300, label="simd-asan-",
                        env_extra={"ASAN_OPTIONS": "detect_leaks=0:halt_on_error=1:abort_on_error=1"})
        res.add_counter("simd_slice_runs|asan", 1)
        res.add_counter("simd_slice_asan_crashes", res.crashes - before)


def run(tier, seed, scratch, t0):
    def post(res):
        c = res.counters
        res.extras["jenkins_fold_observed"] = "upper" if c.get("jenkins_fold_upper", 0) and not c.get("jenkins_fold_lower", 0) else (
            "lower" if c.get("jenkins_fold_lower", 0) and not c.get("jenkins_fold_upper", 0) else "mixed-or-none")
    def post_all(res):
        post(res)
        _simd_slice(res, tier, seed, scratch)
        if tier == "thorough":
            _miri_slice(res, tier, seed, scratch)
    return sup.simple_check("C04", "vh-mpq", "c04", tier, seed, scratch, t0, "exploration", RULE, ASSUME,
                            nshards=8, case_timeout=120, min_cases=300, post=post_all,
                            extra_cov={"exhaustive_subspaces": ["crypt table 1280 entries", "fold tables 2x256", "all &str of length <= 2 bytes x 4 types",
                                                                "all 3-byte UTF-8 scalars x 4 types", "cipher lengths 0..17 x 77 keys"]})


def replay(rp, scratch):
    return sup.generic_replay(rp, scratch, "vh-mpq", features="simd" if rp["replay"].get("bin") == "c04_simd" else None)
