"""C04 — hashing and encryption equal the MPQ algorithms and are mutually inverse (DESIGN.md §6 C04)."""
import sup

RULE = ("cases: 0 = all 1280 crypt-table entries + both fold tables (direct and behavioural); 1..180 = every &str of <=2 bytes "
        "(empty, 128 ASCII, 128^2 ASCII pairs, all 2-byte UTF-8 scalars), every 3-byte and a stride of the 4-byte UTF-8 scalars, x 4 hash types, "
        "vs an independent reference hash; 200.. = random longer names with case/slash variants and wrapper agreement; 1000.. = cipher laws "
        "(dword API inverse and equal to the reference cipher, byte wrappers inverse, decrypt_dword) for every length 0..17 x 77 keys x 6 buffers; "
        "2000.. random buffers up to 64 KiB; 3000.. het_hash vs lookup3 hashlittle2 of the folded name for 7 widths; 4000 = the hash the BET writer stores. "
        "distinct = distinct case classes (first byte / lead byte / key / batch) executed; every case is non-trivial (compares at least one value).")

ASSUME = ["reference = crypt table regenerated from seed 0x00100001, HashString with ASCII-only fold, lookup3.c hashlittle2 transcribed (harness/vh-mpq/src/lib.rs)",
          "the 13 byte values that cannot occur in any &str (0xC0, 0xC1, 0xF5..0xFF) are unreachable through hash_string(&str) and covered only by the direct table comparison",
          "Jenkins fold direction (upper vs lower) is not fixed by the statement: either is accepted provided it is the same for every name",
          "key 0 is an identity in this code by construction; inverse-ness is still checked for it"]


def run(tier, seed, scratch, t0):
    def post(res):
        c = res.counters
        res.extras["jenkins_fold_observed"] = "upper" if c.get("jenkins_fold_upper", 0) and not c.get("jenkins_fold_lower", 0) else (
            "lower" if c.get("jenkins_fold_lower", 0) and not c.get("jenkins_fold_upper", 0) else "mixed-or-none")
    return sup.simple_check("C04", "vh-mpq", "c04", tier, seed, scratch, t0, "exploration", RULE, ASSUME,
                            nshards=8, case_timeout=120, min_cases=300, post=post,
                            extra_cov={"exhaustive_subspaces": ["crypt table 1280 entries", "fold tables 2x256", "all &str of length <= 2 bytes x 4 types",
                                                                "all 3-byte UTF-8 scalars x 4 types", "cipher lengths 0..17 x 77 keys"]})


def replay(rp, scratch):
    return sup.generic_replay(rp, scratch, "vh-mpq")
