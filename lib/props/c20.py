"""C20 — the command-line tool's exit status and outputs tell the truth (DESIGN.md §6 C20).

Drives the `warcraft-rs` binary built from the current tree (or `VERIF_CLI=<path>`), from outside, in four slices:

  A  create -> extract      generated file sets x `mpq create` {v1..v4} x {none,zlib,bzip2,lzma} x listfile on/off, then
                            `mpq extract` {all/threads 1, all/threads 4/preserve paths, explicit names, explicit names + one
                            missing name, the same with --skip-errors, --file-type}: the extracted tree equals the input tree
                            byte for byte (the tool stores base names; with and without -p the path of a name is the name with
                            `\\` as directory separator, resp. its last component).  Archives whose names have directories are
                            built with the library (harness/vh-mpq c20_lib --build) for the preserve-paths half.
  A2 re-extraction          every created archive is extracted again into a directory that already holds same-named files (longer, shorter,
                            equal length, absent): exit 0 => byte-identical tree.
  A3 unwritable names       archives made by `mpq create` with an entry named `..\\x`, `c:x`, `sub\\..\\..\\x` (legal Unix base names): the tool
                            refuses to write them, so without --skip-errors the exit status must be non-zero, with it the rest must be complete.
  B  list / info            `mpq list` line set == Archive::list() names, `mpq info` "Number of files" == get_info().file_count
                            (library view of the same archive by c20_lib --view, a separate process).
  C  sub-command sweep      every sub-command of blp/dbc/m2/wmo/adt/wdt/wdl/mpq on a valid file, truncations and single-field /
                            chunk corruptions of it (C05 seeds + C05 mutator via harness/vh-formats c20_gen; MPQ archives are
                            created by the CLI and damaged here), plus unreadable inputs and invalid option values.
                            Oracle = the verdict of the *specific library call chain that sub-command wraps* (computed in-process
                            by the helpers on the same bytes):  library Err  =>  exit status != 0;   exit 0  =>  the promised
                            output (stdout text / JSON / CSV, output file) exists, is non-empty and - for converters and exporters -
                            parses again with the library and equals what the wrapped library writer produces (DBC exports: record count).  A validate sub-command that prints its own failure marker and exits 0
                            is `exit0-but-failed` as well.  A panic (exit 101) or a signal counts as non-zero here and is reported
                            as `panic-exit` (C05's clause), not as a truthful error.
  D  memcheck (thorough)    the CLI's two `slice::from_raw_parts` hex dumps (`mpq debug --hash-table/--block-table --raw`) under
                            `valgrind --error-exitcode=9 -q` on three archives.

Signatures: <clause>|<family>|<sub-command>|<input class>, clause in {exit0-but-failed, exit0-output-missing,
exit0-output-unparseable, roundtrip-differs, list-ne-library, info-count-ne-library, missing-name-exit0, memcheck}.
"""
import hashlib
import json
import os
import random
import re
import shutil
import struct
import subprocess
import threading
import time
from concurrent.futures import ThreadPoolExecutor

import sup

PROP = "C20"
SPECIAL = {"(listfile)", "(attributes)", "(signature)"}
SECTOR = 16384  # sector size of archives `mpq create` builds (block size 5; the CLI offers no option)
AS_LIMIT = 12 << 30

RULE = ("one evaluation = one run of the warcraft-rs binary, judged from outside (exit status, stdout, files written). "
        "A: file sets (5-9 files; names with mixed case, spaces, dots, parentheses, no extension, placed in sub-directories; sizes from {0,1,2,511,4095,4096,sector-1,sector,sector+1,3 sectors+17,70001}; "
        "contents random / text / mixed / ramp, seeded by VERIF_SEED) x `mpq create` over the full product {v1,v2,v3,v4} x {none,zlib,bzip2,lzma} x {--with-listfile, default} "
        "x 6 extract variants each, + library-built archives with directory names x {preserve paths, flat}; every extracted file is compared byte for byte with its input. "
        "A2: every archive of A extracted again (all names / explicit names / --patch branch) into an output directory pre-populated with same-named files whose old contents are longer, shorter, of equal length or absent. "
        "A3: archives with one entry the tool must refuse to write (`..\\escape.txt`, `c:drive.txt`, `sub\\..\\..\\up2.txt`) x 5 extract variants in per-run sandboxes. "
        "B: `mpq list` (plain, --filter) and `mpq info` of every archive of A against Archive::list()/get_info() computed by a helper process. "
        "C: per format family 2 seeds (quick; all seeds thorough) x {valid, 8 prefix truncations, 8 single-field boundary values / chunk-size / chunk-structure corruptions} "
        "(thorough: 16 + 24) x every sub-command and option class of that family; MPQ: 3 CLI-built archives (+1 with directories) x {valid, 8 truncations, ~12 header-field / table / file-data corruptions} "
        "x {info, info <file>, list, list -l, validate, extract, extract --skip-errors, tree, debug x4, rebuild, compare, patch-chain, db analyze}; "
        "+ unreadable inputs (missing path, directory) and invalid option values for every family. The failure oracle is the verdict of the library call chain the sub-command wraps, on the same bytes; numbers and enumerations printed on exit 0 (record / tile / chunk / vertex / file counts, the full `wdt tiles` set in text, csv and json) "
        "are compared with the same library object (`facts`, computed by the helper). "
        "distinct_nontrivial = distinct (family, sub-command, input class, option class) tuples executed and judged; a run is non-trivial iff the binary was started and its exit status observed.")
ASSUME = [
    "the library's verdict is computed by helper binaries (release profile, --cfg warcraft_rs_verif) while the CLI is the debug binary: a debug-only arithmetic panic in the CLI is a non-zero exit and is only counted",
    "library verdict 'abort' / 'hang' (the helper process died or stalled inside the library call: C05's domain) is treated as unknown: no exit-status demand is derived from it",
    "a sub-command whose wrapped library call succeeds but which exits non-zero is not a violation of the statement (it is counted as lib-ok-exit-nonzero); create/extract/list/info of slice A/B on valid generated input must succeed",
    "`mpq rebuild` of a damaged archive exits 0 with `Skipped files: N` (or an empty target) because rebuild_archive itself returns Ok after skipping what it cannot read: by the scoping rule "
    "(the verdict of the wrapped library call) this is not flagged here; it is counted (rebuild_exit0_reporting_skipped_files) and belongs to C07. Likewise a 0-byte or truncated file that the lenient WMO/ADT parsers accept",
    "converter outputs (m2/skin/anim/wmo/adt/wdt/wdl convert, blp->blp) are additionally compared byte for byte (length + fnv64) with what the wrapped library chain writes in-process for the same input, "
    "so the completeness oracle stays sensitive where the re-parse oracle is blinded by a known library writer/reader disagreement (anim)",
    "`dbc validate` reporting invalid string references with a warning mark and `blp validate` 'valid with warnings' are the tool's own notion of a warning, not of a failed validation",
    "`mpq debug --find <absent name>` and `mpq list --filter <no match>` print a negative answer and exit 0: a query answered, not a failed operation",
    "`dbc discover` printing that the discovered schema does not validate is the answer of a heuristic, not a failed operation; the wrapped calls (parse, discover, generate_schema) decide",
    "file names containing `;`, CR or LF are not used: the (listfile) format reserves them, so `mpq extract` without explicit names cannot name such files",
    "`mpq <sub-command> <directory>` is not run: Archive::open on a directory never returns (C19's finding open-archive-on-directory); a hang is not an exit status",
    "known upstream findings kept out of the workload: PKWare, highly repetitive contents >= 64 KiB (bomb-ratio limit), encrypted files, V3/V4 modification paths",
    "both helper and CLI processes run with RLIMIT_AS = 12 GiB so that an absurd allocation request fails the same way on both sides",
    "valgrind slice: plain debug binary, memcheck defaults, --error-exitcode=9; if valgrind cannot run the slice is inconclusive",
]

_lock = threading.Lock()
_ANSI = re.compile(r"\x1b\[[0-9;]*[A-Za-z]")


# ------------------------------------------------------------------------------------------------ context

class Ctx:
    def __init__(self, tier, seed, scratch, cli, gen, lib):
        self.tier, self.seed, self.scratch = tier, int(seed), scratch
        self.cli, self.gen, self.lib = cli, gen, lib
        self.thorough = tier == "thorough"
        self.home = os.path.join(scratch, "home")
        os.makedirs(self.home, exist_ok=True)
        self.nrun = 0
        self.env = self._env(self.home)
        self.have_prlimit = bool(shutil.which("prlimit"))

    def _env(self, home):
        env = {k: v for k, v in os.environ.items() if not k.startswith("XDG_") and k not in ("RUST_LOG", "RUST_BACKTRACE", "NO_COLOR", "CLICOLOR_FORCE")}
        env.update({"HOME": home, "XDG_DATA_HOME": os.path.join(home, "data"), "XDG_CONFIG_HOME": os.path.join(home, "config"),
                    "XDG_CACHE_HOME": os.path.join(home, "cache"), "XDG_STATE_HOME": os.path.join(home, "state"), "RUST_BACKTRACE": "0",
                    "TMPDIR": os.path.join(self.scratch, "tmp"), "VERIF_SEED": str(self.seed)})
        os.makedirs(env["TMPDIR"], exist_ok=True)
        return env

    def wrap(self, cmd):
        if self.have_prlimit:
            return ["prlimit", f"--as={AS_LIMIT}", "--core=0"] + cmd
        return cmd

    def newdir(self, tag):
        with _lock:
            self.nrun += 1
            n = self.nrun
        d = os.path.join(self.scratch, "runs", f"{n:06d}-{tag}")
        os.makedirs(d, exist_ok=True)
        return d

    def run_cli(self, args, own_home=False, cwd=None, timeout=None, prefix=None, stdout_to=None):
        # a sector-offset table damaged in place costs the reader ~25 s per file before it gives up (seen in the thorough MPQ sweep): generous budget
        timeout = timeout or (900 if self.thorough else 240)
        env = self.env
        if own_home:
            env = self._env(self.newdir("home"))
        cmd = (prefix or []) + [self.cli] + list(args)
        if not prefix:
            cmd = self.wrap(cmd)
        t = time.time()
        try:
            if stdout_to:
                with open(stdout_to, "wb") as so:
                    p = subprocess.run(cmd, env=env, cwd=cwd or self.scratch, stdin=subprocess.DEVNULL, stdout=so, stderr=subprocess.PIPE, timeout=timeout)
                rc, out, err = p.returncode, b"", p.stderr
            else:
                p = subprocess.run(cmd, env=env, cwd=cwd or self.scratch, stdin=subprocess.DEVNULL, stdout=subprocess.PIPE, stderr=subprocess.PIPE, timeout=timeout)
                rc, out, err = p.returncode, p.stdout, p.stderr
        except subprocess.TimeoutExpired as ex:
            rc, out, err = None, ex.stdout or b"", ex.stderr or b""
        return {"rc": rc, "out": _ANSI.sub("", out.decode("utf-8", "replace")), "err": err.decode("utf-8", "replace")[-1500:], "dt": time.time() - t}


def pmap(fn, items, workers=sup.NCPU):
    if not items:
        return []
    with ThreadPoolExecutor(max_workers=workers) as ex:
        return list(ex.map(fn, items))


def fnv64(b):
    h = 0xcbf29ce484222325
    for x in b:
        h = ((h ^ x) * 0x100000001b3) & 0xFFFFFFFFFFFFFFFF
    return f"{h:016x}"


def file_sig(path):
    with open(path, "rb") as f:
        b = f.read()
    return f"{len(b)}:{fnv64(b)}"


def rc_class(rc):
    if rc is None:
        return "timeout"
    if rc == 0:
        return "0"
    if rc == 101:
        return "101(panic)"
    if rc < 0:
        return f"signal-{-rc}"
    return str(rc)


def tree_of(root):
    out = {}
    for dp, _dn, fn in os.walk(root):
        for f in fn:
            p = os.path.join(dp, f)
            rel = os.path.relpath(p, root)
            with open(p, "rb") as fh:
                out[rel] = fh.read()
    return out


# ----------------------------------------------------------------------------------- journaled helper runs

def run_journaled(ctx, base_cmd, journal, kind_done=("F", "V", "A"), stall=None, env_extra=None, reemit=False):
    """Run a helper that writes B/<done>/D lines; restart behind an item whose library call killed or stalled the process.
    Returns (events, crashed: {index: 'abort'|'hang'})."""
    crashed, start, guard = {}, 0, 0
    stall = stall or (420.0 if ctx.thorough else 120.0)
    env = dict(ctx.env)
    env["RUST_LOG"] = "off"
    if env_extra:
        env.update(env_extra)
    while True:
        guard += 1
        if guard > 400:
            raise sup.Broken(f"helper {os.path.basename(base_cmd[0])} restarted too often")
        cmd = base_cmd + ["--journal", journal, "--start", str(start)]
        if reemit and crashed:
            cmd += ["--nolib", ",".join(f"{i}:{k}" for i, k in sorted(crashed.items()))]
        cmd = ctx.wrap(cmd)
        p = subprocess.Popen(cmd, env=env, cwd=ctx.scratch, stdout=subprocess.DEVNULL, stderr=subprocess.PIPE)
        last, lastsz, hung = time.time(), -1, False
        while p.poll() is None:
            time.sleep(0.05)
            try:
                sz = os.path.getsize(journal)
            except OSError:
                sz = 0
            if sz != lastsz:
                lastsz, last = sz, time.time()
            elif time.time() - last > stall:
                p.kill()
                hung = True
        errtxt = (p.stderr.read() or b"").decode("utf-8", "replace")[-600:]
        p.wait()
        events, open_idx, done = [], None, False
        if os.path.exists(journal):
            for line in open(journal, errors="replace"):
                try:
                    ev = json.loads(line)
                except Exception:
                    continue
                if ev.get("e") == "B":
                    open_idx = ev["i"]
                elif ev.get("e") in kind_done:
                    open_idx = None
                    events.append(ev)
                elif ev.get("e") == "D":
                    done = True
                    events.append(ev)
        if done:
            return events, crashed
        if open_idx is None:
            raise sup.Broken(f"helper {os.path.basename(base_cmd[0])} ended outside any item (rc={p.returncode}): {errtxt}")
        crashed[open_idx] = "hang" if hung else "abort"
        # reemit: the helper writes the item again without calling the library (--nolib); otherwise the item is skipped
        start = open_idx if reemit else open_idx + 1


# -------------------------------------------------------------------------------------------- file sets (A)

NAME_POOL = ["readme.txt", "README2.TXT", "Data File.bin", "icon.blp", "Model.M2", "noext", "a.b.c.d", "Spell (copy).dbc", "UPPER.DAT", "lower.dat2",
             "MixedCase.Txt", "x", "long_name_with_many_characters_0123456789_abcdefghijklmnopqrstuvwxyz.lua", "tile_32_48.adt", "Map.wdt", "sound.wav",
             "-dash.txt", "notes.txt.txt", "banana", "m2.m2.M2", "under_score.TOC", "comma,name.txt", "plus+sign.xml", "hash#tag.txt", "100%.txt", "tilde~.bak", "brace{1}.txt", "at@sign.txt"]
DIRS = ["", "sub", "Sub Dir", "deep/er/est", "UPPER"]
WORDS = [b"azeroth", b"kalimdor", b"outland", b"northrend", b"pandaria", b"draenor", b"texture", b"model", b"terrain", b"\r\n", b" ", b"\t", b"0123456789", b"{}[]();"]


def gen_content(rnd, cls, n):
    if n == 0:
        return b""
    if cls == "random":
        return rnd.randbytes(n)
    if cls == "text":
        out = bytearray()
        while len(out) < n:
            out += rnd.choice(WORDS)
            if rnd.random() < 0.3:
                out += str(rnd.randrange(1 << 30)).encode()
        return bytes(out[:n])
    if cls == "mixed":
        out = bytearray()
        while len(out) < n:
            if rnd.random() < 0.5:
                out += rnd.randbytes(rnd.randrange(1, 200))
            else:
                out += bytes([rnd.randrange(256)]) * rnd.randrange(1, 64)
        return bytes(out[:n])
    return bytes((i * 7 + (i >> 8) * 13) & 0xFF for i in range(n))  # ramp


def make_fileset(ctx, k):
    rnd = random.Random(f"c20-{ctx.seed}-set-{k}")
    ladder = [0, 1, 2, 511, 4095, 4096, SECTOR - 1, SECTOR, SECTOR + 1, 3 * SECTOR + 17]
    if ctx.thorough:
        ladder.append(70001)
    n = rnd.randrange(5, 10)
    names = rnd.sample(NAME_POOL, n)
    # the tool stores base names and MPQ names are case-insensitive: keep them distinct under case folding
    seen, uniq = set(), []
    for nm in names:
        if nm.lower() not in seen:
            seen.add(nm.lower())
            uniq.append(nm)
    sizes = rnd.sample(ladder, min(len(uniq), len(ladder)))
    # every set straddles a sector boundary and has an empty and a one-byte file
    for must in (0, 1, SECTOR + 1):
        if must not in sizes:
            sizes[rnd.randrange(len(sizes))] = must
    root = os.path.join(ctx.scratch, "in", f"set{k}")
    files = []
    for i, nm in enumerate(uniq):
        cls = ["random", "text", "mixed", "ramp"][(i + k) % 4]
        data = gen_content(rnd, cls, sizes[i % len(sizes)])
        d = os.path.join(root, rnd.choice(DIRS))
        os.makedirs(d, exist_ok=True)
        p = os.path.join(d, nm)
        with open(p, "wb") as f:
            f.write(data)
        files.append({"name": nm, "path": p, "data": data, "cls": cls})
    # every third set: one input is a symbolic link to a regular file kept elsewhere (a shared asset linked into the staging
    # directory, after C20-r5m3): the archive member is the file's content under the link's name
    if k % 3 == 2:
        tdir = os.path.join(root, "link-targets")
        os.makedirs(tdir, exist_ok=True)
        data = gen_content(rnd, "mixed", 700 + k)
        with open(os.path.join(tdir, "shared-asset.bin"), "wb") as f:
            f.write(data)
        lp = os.path.join(root, "linked.dat")
        if os.path.lexists(lp):
            os.remove(lp)
        os.symlink(os.path.join(tdir, "shared-asset.bin"), lp)
        files.append({"name": "linked.dat", "path": lp, "data": data, "cls": "mixed"})
    # every other set: an input whose file name contains characters that shells treat as patterns (brackets: `?` and `*` are
    # refused by the extraction guard as unsafe on other systems, so they cannot make a round trip), standing next to a file
    # the name would match if it were read as a pattern; the neighbour is itself an input in half of these sets (after C20-r6m1).
    # An argument of `-a` names one file.
    if k % 2 == 1:
        meta, sib = [("icon[1].png", "icon1.png"), ("img[0-9].blp", "img7.blp"), ("set[!x]y.bin", "setay.bin"), ("tab[a-c].dat", "tabb.dat")][(k // 2) % 4]
        d = os.path.join(root, "glob")
        os.makedirs(d, exist_ok=True)
        for j, nm in enumerate((meta, sib)):
            data = gen_content(rnd, "text", 300 + 50 * j + k)
            with open(os.path.join(d, nm), "wb") as f:
                f.write(data)
            if j == 0 or (k // 8) % 2 == 0:
                files.append({"name": nm, "path": os.path.join(d, nm), "data": data, "cls": "text"})
    return files


# ------------------------------------------------------------------------------------------------ verdicts

class Sink:
    """Collects judged runs into the sup.Result."""

    def __init__(self, res, tier, seed):
        self.res, self.tier, self.seed = res, tier, seed
        self.sample_keys = set()
        self.classes_by_family = {}

    def record(self, family, sub, cls, opt, r, viols, lib=None, sample=None, replay=None):
        res = self.res
        res.cases += 1
        rc = r["rc"]
        res.add_counter(f"runs|{family}|{sub}", 1)
        res.add_counter(f"exit|{rc_class(rc)}", 1)
        if rc is None:
            res.add_inconclusive("cli-timeout")
            res.notes.append(f"timeout: {family} {sub} [{cls}/{opt}]")
            return
        key = f"{family}|{sub}|{cls}|{opt}"
        res.classes.add(key)
        self.classes_by_family.setdefault(family, set()).add(key)
        if rc == 101 or rc < 0:
            res.add_counter(f"panic-exit|{family}|{sub}|{cls.split('-')[0]}", 1)
        if lib is not None:
            kind = "valid" if cls == "valid" else cls.split("-")[0]
            res.add_counter(f"sweep|{kind}|lib-{lib}|{'exit0' if rc == 0 else 'nonzero'}", 1)
            if lib == "ok" and rc != 0:
                res.add_counter(f"lib-ok-exit-nonzero|{family}|{sub}", 1)
        if viols:
            res.verdicts["viol"] += 1
            for clause, what, detail in viols:
                sig = f"{clause}|{family}|{sub}|{cls}"
                rp = {"property": PROP, "tier": self.tier, "seed": self.seed}
                rp.update(replay or {})
                res.add_violation(sig, what, detail, rp)
        else:
            res.verdicts["held"] += 1
        sk = (family, cls.split("-")[0], rc == 0)
        if sample is not None and sk not in self.sample_keys and len(res.samples) < 6 and (len(self.sample_keys) % 5 == 0 or len(res.samples) < 2):
            res.samples.append(sample)
        self.sample_keys.add(sk)


def short_cmd(args, scratch):
    return " ".join(a.replace(scratch, "$S") for a in args)[:400]


# ------------------------------------------------------------------------------------- slice A: round trips

VERSIONS = ["v1", "v2", "v3", "v4"]
COMPS = ["none", "zlib", "bzip2", "lzma"]


def archive_plan(ctx):
    nsets = 12 if ctx.thorough else 4
    reps = 3 if ctx.thorough else 1
    plan, k = [], 0
    for rep in range(reps):
        for v in VERSIONS:
            for c in COMPS:
                for lf in (True, False):
                    plan.append({"idx": k, "version": v, "comp": c, "listfile": lf, "set": (k + rep * 5) % nsets})
                    k += 1
    return plan, nsets


def do_create(ctx, a, filesets):
    d = ctx.newdir(f"create-{a['idx']}")
    a["path"] = os.path.join(d, f"a{a['idx']}.mpq")
    files = filesets[a["set"]]
    args = ["mpq", "create", a["path"]]
    for f in files:
        args += ["-a", f["path"]]
    args += ["--version", a["version"], "-c", a["comp"]]
    if a["listfile"]:
        args.append("--with-listfile")
    a["create"] = ctx.run_cli(args)
    a["create_args"] = args
    return a


def extract_variants(ctx, a, files, rnd):
    names = [f["name"] for f in files]
    shuf = names[:]
    rnd.shuffle(shuf)
    sub = shuf[: max(2, len(shuf) // 2)]
    missing = "No Such File.xyz"
    withmiss = sub[:1] + [missing] + sub[1:]
    ft = ".txt" if any(n.lower().endswith(".txt") for n in names) else "." + names[0].rsplit(".", 1)[-1] if "." in names[0] else names[0][-1]
    v = [
        {"opt": "all-threads1", "args": ["--threads", "1"], "expect": names, "specials": True},
        {"opt": "all-threads4-preserve", "args": ["--threads", "4", "-p"], "expect": names, "specials": True},
        {"opt": "names", "args": ["--"] + shuf, "expect": shuf, "specials": False},
        {"opt": "names+missing", "args": ["--threads", "4", "--"] + withmiss, "expect": None, "must_fail": True},
        {"opt": "names+missing-skip-errors", "args": ["--skip-errors", "--"] + withmiss, "expect": sub, "specials": False, "may_fail": True},
        # the same requests through a patch chain (the archive once more as its own patch; after C20-r7m2)
        {"opt": "names-chain", "args": ["--patch", a["path"], "--"] + shuf, "expect": shuf, "specials": False},
        {"opt": "names+missing-chain", "args": ["--patch", a["path"], "--"] + withmiss, "expect": None, "must_fail": True},
        {"opt": "names+missing-chain-skip-errors", "args": ["--patch", a["path"], "--skip-errors", "--"] + withmiss, "expect": sub, "specials": False, "may_fail": True},
        {"opt": "file-type", "args": ["--file-type", ft.upper()], "expect": [n for n in names if n.lower().endswith(ft.lower())], "specials": True},
    ]
    return v


def judge_extract(ctx, a, var, r, outdir, want, label_sub="extract"):
    """want: {relative path: bytes} expected in outdir (specials tolerated iff var['specials'])."""
    viols, cnt = [], {"files_compared": 0, "bytes_compared": 0}
    rc = r["rc"]
    if rc is None:
        return viols, cnt
    if var.get("must_fail"):
        if rc == 0:
            viols.append(("missing-name-exit0", f"`mpq extract` was given a name that is not in the archive, without --skip-errors, and exited 0 ({var['opt']})",
                          {"cmd": short_cmd(var["cmd"], ctx.scratch), "stdout": r["out"][-300:], "stderr": r["err"][-300:]}))
        return viols, cnt
    if rc != 0:
        if var.get("may_fail"):
            return viols, cnt
        viols.append(("roundtrip-differs", f"`mpq extract` ({var['opt']}) of an archive the tool just created exited {rc_class(rc)}: no round trip",
                      {"cmd": short_cmd(var["cmd"], ctx.scratch), "archive": a.get("desc"), "stderr": r["err"][-500:]}))
        return viols, cnt
    got = tree_of(outdir) if os.path.isdir(outdir) else {}
    extra = sorted(k for k in got if k not in want and not (var.get("specials") and k in SPECIAL))
    missing = sorted(k for k in want if k not in got)
    diff = []
    for k, data in want.items():
        if k in got:
            cnt["files_compared"] += 1
            cnt["bytes_compared"] += len(data)
            if got[k] != data:
                diff.append({"name": k, "want_len": len(data), "got_len": len(got[k]),
                             "first_diff": next((i for i, (x, y) in enumerate(zip(got[k], data)) if x != y), min(len(got[k]), len(data)))})
    if missing or diff or extra:
        viols.append(("roundtrip-differs", f"`mpq extract` ({var['opt']}) exited 0 but the extracted tree differs from the input: missing={missing[:4]} differing={[d['name'] for d in diff][:4]} unexpected={extra[:4]}",
                      {"cmd": short_cmd(var["cmd"], ctx.scratch), "archive": a.get("desc"), "missing": missing[:20], "n_missing": len(missing), "differing": diff[:6], "unexpected": extra[:6], "stdout": r["out"][-300:]}))
    return viols, cnt


def slice_roundtrip(ctx, sink, only=None):
    res = sink.res
    plan, nsets = archive_plan(ctx)
    filesets = [make_fileset(ctx, k) for k in range(nsets)]
    if only is not None:
        plan = [a for a in plan if a["idx"] == only.get("archive")]
    pmap(lambda a: do_create(ctx, a, filesets), plan)
    archives = []
    for a in plan:
        files = filesets[a["set"]]
        a["desc"] = {"version": a["version"], "compression": a["comp"], "with_listfile": a["listfile"], "files": [{"name": f["name"], "len": len(f["data"]), "content": f["cls"]} for f in files]}
        r = a["create"]
        opt = f"{a['version']}-{a['comp']}-{'listfile' if a['listfile'] else 'default'}"
        viols = []
        if r["rc"] is not None and (r["rc"] != 0 or not os.path.isfile(a["path"]) or os.path.getsize(a["path"]) == 0):
            clause = "roundtrip-differs" if r["rc"] != 0 else "exit0-output-missing"
            viols.append((clause, f"`mpq create` ({opt}) exited {rc_class(r['rc'])} on readable input files; archive present: {os.path.isfile(a['path'])}",
                          {"cmd": short_cmd(a["create_args"], ctx.scratch), "archive": a["desc"], "stderr": r["err"][-500:]}))
        else:
            archives.append(a)
        sink.record("mpq", "create", "valid", opt, r, viols, sample={"slice": "A", "cmd": short_cmd(a["create_args"], ctx.scratch), "exit": r["rc"], "archive": a["desc"]},
                    replay={"slice": "A", "archive": a["idx"]})
        res.add_counter("archives_created", 1 if not viols else 0)
    jobs = []
    for a in archives:
        files = filesets[a["set"]]
        rnd = random.Random(f"c20-{ctx.seed}-ext-{a['idx']}")
        for var in extract_variants(ctx, a, files, rnd):
            jobs.append((a, var, files))

    def run_extract(job):
        a, var, files = job
        out = os.path.join(ctx.newdir(f"extract-{a['idx']}"), "out")
        var["cmd"] = ["mpq", "extract", a["path"], "-o", out] + var["args"]
        return out, ctx.run_cli(var["cmd"])

    outs = pmap(run_extract, jobs)
    for (a, var, files), (out, r) in zip(jobs, outs):
        by = {f["name"]: f["data"] for f in files}
        want = {n: by[n] for n in (var["expect"] or [])}
        viols, cnt = judge_extract(ctx, a, var, r, out, want)
        for k, n in cnt.items():
            res.add_counter(k, n)
        res.add_counter("roundtrips", 1 if (r["rc"] == 0 and not var.get("must_fail")) else 0)
        if var.get("must_fail"):
            res.add_counter("missing-name|no-skip|" + ("exit0" if r["rc"] == 0 else "nonzero"), 1)
        if var.get("may_fail"):
            res.add_counter("missing-name|skip-errors|" + ("exit0" if r["rc"] == 0 else "nonzero"), 1)
        sink.record("mpq", "extract", "valid", var["opt"], r, viols,
                    sample={"slice": "A", "cmd": short_cmd(var["cmd"], ctx.scratch), "exit": r["rc"], "archive": a["desc"], "files_expected": len(want)},
                    replay={"slice": "A", "archive": a["idx"], "variant": var["opt"]})
        shutil.rmtree(os.path.dirname(out), ignore_errors=True)
    return archives, filesets


DIR_NAMES = ["Interface\\Icons\\INV_Misc_QuestionMark.blp", "World\\Maps\\Azeroth\\Azeroth.wdt", "DBFilesClient\\Spell.dbc", "readme.txt",
             "Sound\\Music\\ZoneMusic\\Forest\\DayForest01.mp3", "a\\b\\c\\d\\e\\deep.bin", "UPPER\\lower\\Mixed.TxT"]


def slice_dirs(ctx, sink, filesets):
    """Archives with directory names (library-built) x {preserve paths, flat, explicit names}."""
    res = sink.res
    d = ctx.newdir("dirs")
    spec, model = [], []
    combos = [(1, "zlib"), (2, "none"), (3, "bzip2"), (4, "lzma")]
    for i, (ver, comp) in enumerate(combos):
        files = filesets[i % len(filesets)]
        names = DIR_NAMES[: len(files)]
        spec.append({"path": os.path.join(d, f"dirs{i}.mpq"), "version": ver, "compression": comp, "files": [{"name": n, "src": f["path"]} for n, f in zip(names, files)]})
        model.append({n: f["data"] for n, f in zip(names, files)})
    # archives with more than 1000 entries (the library extracts long name lists in batches on another code path): counts
    # just above 1000 and not multiples of the batch sizes the tool picks
    many_src = os.path.join(d, "many-src")
    os.makedirs(many_src, exist_ok=True)
    rnd = random.Random(f"c20-{ctx.seed}-many")
    for mi, count in enumerate([1010, 1026, 5003] + ([2049, 5013, 10241] if ctx.thorough else [])):
        files = {}
        for k in range(count):
            nm = f"Many\\d{k % 7}\\f{mi}_{k:05}.txt"
            data = (f"entry {k} of {count} " + "x" * rnd.randrange(0, 40)).encode() + bytes(rnd.randrange(256) for _ in range(rnd.randrange(0, 6)))
            src = os.path.join(many_src, f"m{mi}_{k:05}")
            with open(src, "wb") as fh:
                fh.write(data)
            files[nm] = (src, data)
        spec.append({"path": os.path.join(d, f"many{mi}.mpq"), "version": 1 + mi % 4, "compression": ["zlib", "none"][mi % 2], "files": [{"name": n, "src": v[0]} for n, v in files.items()]})
        model.append({n: v[1] for n, v in files.items()})
    sp = os.path.join(d, "spec.json")
    json.dump(spec, open(sp, "w"))
    j = os.path.join(d, "build.jsonl")
    p = subprocess.run(ctx.wrap([ctx.lib, "--build", sp, "--journal", j]), env=dict(ctx.env, RUST_LOG="off"), cwd=d, stdout=subprocess.DEVNULL, stderr=subprocess.PIPE)
    built = {}
    if os.path.exists(j):
        for line in open(j):
            ev = json.loads(line)
            if ev.get("e") == "K":
                built[ev["path"]] = ev["build"]["v"] == "ok"
    archives = []
    jobs = []
    for i, s in enumerate(spec):
        if not built.get(s["path"]):
            res.add_inconclusive("library-could-not-build-dir-archive")
            continue
        a = {"idx": 1000 + i, "path": s["path"], "desc": {"built_by": "library", "version": f"v{s['version']}", "compression": s["compression"], "names": list(model[i])}, "model": model[i]}
        archives.append(a)
        names = list(model[i])
        if len(names) > 1000:
            a["desc"]["names"] = names[:3] + [f"... {len(names)} entries"]
            jobs.append((a, {"opt": "many-preserve", "args": ["-p"], "specials": True}, {n.replace("\\", "/"): b for n, b in model[i].items()}))
            jobs.append((a, {"opt": "many-flat-threads2", "args": ["--threads", "2"], "specials": True}, {n.split("\\")[-1]: b for n, b in model[i].items()}))
            res.add_counter("archives_with_more_than_1000_entries", 1)
            archives.pop()  # not handed to the later slices (their command lines name every entry)
            continue
        jobs.append((a, {"opt": "dirs-preserve", "args": ["-p", "--threads", "2"], "specials": True}, {n.replace("\\", "/"): b for n, b in model[i].items()}))
        jobs.append((a, {"opt": "dirs-flat", "args": [], "specials": True}, {n.split("\\")[-1]: b for n, b in model[i].items()}))
        jobs.append((a, {"opt": "dirs-names-preserve", "args": ["-p", "--"] + names[:3], "specials": False}, {n.replace("\\", "/"): model[i][n] for n in names[:3]}))

    def run_extract(job):
        a, var, _want = job
        out = os.path.join(ctx.newdir(f"extract-{a['idx']}"), "out")
        var["cmd"] = ["mpq", "extract", a["path"], "-o", out] + var["args"]
        return out, ctx.run_cli(var["cmd"])

    outs = pmap(run_extract, jobs)
    for (a, var, want), (out, r) in zip(jobs, outs):
        viols, cnt = judge_extract(ctx, a, var, r, out, want)
        for k, n in cnt.items():
            res.add_counter(k, n)
        res.add_counter("dir_name_extractions", 1)
        sink.record("mpq", "extract", "valid", var["opt"], r, viols, sample={"slice": "A", "cmd": short_cmd(var["cmd"], ctx.scratch), "exit": r["rc"], "archive": a["desc"]},
                    replay={"slice": "A-dirs", "archive": a["idx"], "variant": var["opt"]})
        shutil.rmtree(os.path.dirname(out), ignore_errors=True)
    return archives


# ------------------------------------------------- slice A2: extraction into a populated output directory

def slice_overwrite(ctx, sink, archives, filesets):
    """Re-extraction over an earlier extraction: the output directory already holds files of the same names whose old
    contents are longer / shorter / of equal length but different / absent.  Exit 0 => every file equals its input."""
    res = sink.res
    jobs = []
    for a in archives:
        files = filesets[a["set"]]
        names = [f["name"] for f in files]
        if a["idx"] % 2 == 0:
            jobs.append((a, files, {"opt": "overwrite-existing-all", "args": ["-p", "--threads", "2"], "specials": True}))
        else:
            jobs.append((a, files, {"opt": "overwrite-existing-names", "args": ["--"] + names, "specials": False}))
        if a["idx"] % 8 == 0:
            jobs.append((a, files, {"opt": "overwrite-existing-patch-chain", "args": ["--patch", a["path"]], "specials": True}))

    def run_one(job):
        a, files, var = job
        out = os.path.join(ctx.newdir(f"overwrite-{a['idx']}"), "out")
        os.makedirs(out)
        rnd = random.Random(f"c20-{ctx.seed}-old-{a['idx']}-{var['opt']}")
        old = {}
        for i, f in enumerate(files):
            mode = ("longer", "shorter", "same-length", "absent")[(i + a["idx"]) % 4]
            d = f["data"]
            if mode == "longer":
                prev = d + rnd.randbytes(1 + rnd.randrange(3000))
            elif mode == "shorter":
                prev = d[: len(d) // 2]
            elif mode == "same-length":
                prev = bytes(b ^ 0x5A for b in d)
            else:
                continue
            old[f["name"]] = mode
            with open(os.path.join(out, f["name"]), "wb") as fh:
                fh.write(prev)
        var["old"] = old
        var["cmd"] = ["mpq", "extract", a["path"], "-o", out] + var["args"]
        return out, ctx.run_cli(var["cmd"])

    outs = pmap(run_one, jobs)
    for (a, files, var), (out, r) in zip(jobs, outs):
        want = {f["name"]: f["data"] for f in files}
        viols, cnt = judge_extract(ctx, a, var, r, out, want)
        for v in viols:
            v[2]["previous_content_of_output_files"] = var["old"]
        for k, n in cnt.items():
            res.add_counter(k, n)
        res.add_counter("extractions_over_existing_files", 1)
        res.add_counter("preexisting_output_files", len(var["old"]))
        sink.record("mpq", "extract", "valid", var["opt"], r, viols,
                    sample={"slice": "A2", "cmd": short_cmd(var["cmd"], ctx.scratch), "exit": r["rc"], "output_dir_held": var["old"]},
                    replay={"slice": "A", "archive": a["idx"], "variant": var["opt"]})
        shutil.rmtree(os.path.dirname(out), ignore_errors=True)


# --------------------------------------- slice A3: names the library reads but the tool will not write

UNWRITABLE = ["..\\escape.txt", "c:drive.txt", "sub\\..\\..\\up2.txt"]


def slice_unwritable_names(ctx, sink):
    """Archives (made by `mpq create`: these are legal Unix base names) holding one entry whose name maps outside the output
    directory or carries a drive prefix.  The tool refuses to write such an entry; without --skip-errors that is a failed
    extraction (exit != 0), with --skip-errors every other file must be complete.  Every run has its own sandbox and the
    output directory sits four levels below it, so a name with `..` components stays inside the sandbox in any case."""
    res = sink.res
    configs = [("v1", "zlib", True), ("v2", "none", False), ("v3", "bzip2", False), ("v4", "lzma", True)]
    if not ctx.thorough:
        configs = configs[(ctx.seed % 2)::2]
    plan = []
    k = 0
    for (ver, comp, lf) in configs:
        for hostile in UNWRITABLE:
            plan.append({"idx": 2000 + k, "version": ver, "comp": comp, "listfile": lf, "hostile": hostile})
            k += 1

    def create(a):
        d = ctx.newdir(f"unwritable-{a['idx']}")
        ind = os.path.join(d, "in")
        os.makedirs(ind)
        rnd = random.Random(f"c20-{ctx.seed}-unw-{a['idx']}")
        model = {"a.txt": b"plain text file\n" * 7, a["hostile"]: b"content of the refused entry " + rnd.randbytes(40), "b.bin": rnd.randbytes(3000)}
        args = ["mpq", "create", os.path.join(d, "t.mpq")]
        for nm, data in model.items():
            with open(os.path.join(ind, nm), "wb") as fh:
                fh.write(data)
            args += ["-a", os.path.join(ind, nm)]
        args += ["--version", a["version"], "-c", a["comp"]] + (["--with-listfile"] if a["listfile"] else [])
        a.update({"dir": d, "path": os.path.join(d, "t.mpq"), "model": model, "create_args": args,
                  "desc": {"version": a["version"], "compression": a["comp"], "with_listfile": a["listfile"], "names": list(model)}})
        a["create"] = ctx.run_cli(args)
        return a

    pmap(create, plan)
    ok = []
    for a in plan:
        r = a["create"]
        viols = []
        if r["rc"] is not None and (r["rc"] != 0 or not os.path.isfile(a["path"])):
            viols.append(("roundtrip-differs", f"`mpq create` exited {rc_class(r['rc'])} on readable input files (one base name is {a['hostile']!r})", {"cmd": short_cmd(a["create_args"], ctx.scratch), "stderr": r["err"][-400:]}))
        else:
            ok.append(a)
        sink.record("mpq", "create", "valid-unwritable-name", f"{a['version']}-{a['comp']}", r, viols, replay={"slice": "A3", "archive": a["idx"]})
    jobs = []
    for a in ok:
        names = list(a["model"])
        for opt, args, skip in (("all", [], False), ("all-preserve", ["-p", "--threads", "2"], False), ("all-skip-errors", ["--skip-errors"], True),
                                ("names", ["--"] + names, False), ("names-skip-errors-preserve", ["--skip-errors", "-p", "--"] + names, True)):
            jobs.append((a, opt, args, skip))

    def run_one(job):
        a, opt, args, skip = job
        sb = ctx.newdir(f"sandbox-{a['idx']}")
        out = os.path.join(sb, "s1", "s2", "s3", "out")
        os.makedirs(out)
        cmd = ["mpq", "extract", a["path"], "-o", out] + args
        return sb, out, cmd, ctx.run_cli(cmd)

    outs = pmap(run_one, jobs)
    for (a, opt, args, skip), (sb, out, cmd, r) in zip(jobs, outs):
        rc = r["rc"]
        viols = []
        everything = tree_of(sb)
        rel_out = os.path.relpath(out, sb)
        inside = {k[len(rel_out) + 1:]: v for k, v in everything.items() if k.startswith(rel_out + os.sep)}
        outside = {k: v for k, v in everything.items() if not k.startswith(rel_out + os.sep)}
        hostile_data = a["model"][a["hostile"]]
        written_somewhere = any(v == hostile_data for v in everything.values())
        detail = {"cmd": short_cmd(cmd, ctx.scratch), "archive": a["desc"], "exit": rc, "files_in_output_dir": sorted(inside), "files_elsewhere_in_sandbox": sorted(outside),
                  "stdout_tail": r["out"][-300:], "stderr_tail": r["err"][-300:]}
        if outside:
            res.add_counter("unwritable_name_written_outside_output_dir", 1)  # C11's subject; only counted here
        if rc == 0 and not skip and not written_somewhere:
            viols.append(("exit0-but-failed", f"`mpq extract` ({opt}) exited 0 without --skip-errors although the entry {a['hostile']!r} of the archive was not extracted", detail))
        if rc == 0:
            others = {n: d for n, d in a["model"].items() if n != a["hostile"]}
            bad = [n for n, d in others.items() if inside.get(n) != d]
            res.add_counter("files_compared", len(others))
            if bad:
                viols.append(("roundtrip-differs", f"`mpq extract` ({opt}) exited 0 but the writable files {bad} are missing or differ", detail))
        res.add_counter("unwritable-name|" + ("skip-errors" if skip else "no-skip") + "|" + ("exit0" if rc == 0 else "nonzero"), 1)
        sink.record("mpq", "extract", "valid-unwritable-name", opt, r, viols,
                    sample={"slice": "A3", "cmd": short_cmd(cmd, ctx.scratch), "exit": rc, "archive": a["desc"]}, replay={"slice": "A3", "archive": a["idx"], "variant": opt})
        shutil.rmtree(sb, ignore_errors=True)
    return ok


def slice_same_basenames(ctx, sink):
    """`mpq create` from inputs of several directories whose base names coincide (exactly, or up to ASCII case): the archive
    stores base names, so it cannot hold them all.  Either the tool refuses (exit != 0), or - exit 0 - extracting the archive
    gives back every input bit-identically; exit 0 with an input silently left out is an incomplete output."""
    res = sink.res
    shapes = [("same", ["textures/readme.txt", "sounds/readme.txt", "textures/a.blp"]), ("case", ["ui/Frame.XML", "ui2/frame.xml", "ui/b.lua"]),
              ("three", ["a/data.bin", "b/data.bin", "c/data.bin"]), ("none", ["a/one.bin", "b/two.bin", "c/three.bin"])]
    configs = [("v1", "zlib"), ("v4", "none")] if ctx.thorough else [("v1", "zlib") if ctx.seed % 2 else ("v4", "none")]
    jobs = [(ver, comp, sh, rels) for (ver, comp) in configs for (sh, rels) in shapes]

    def one(job):
        ver, comp, sh, rels = job
        d = ctx.newdir(f"samebase-{ver}-{sh}")
        rnd = random.Random(f"c20-{ctx.seed}-samebase-{ver}-{sh}")
        model = {}
        args = ["mpq", "create", os.path.join(d, "t.mpq")]
        for rel in rels:
            pth = os.path.join(d, "in", rel)
            os.makedirs(os.path.dirname(pth), exist_ok=True)
            data = (rel + "\n").encode() * 3 + rnd.randbytes(200 + len(model) * 17)
            with open(pth, "wb") as fh:
                fh.write(data)
            model[rel] = data
            args += ["-a", pth]
        args += ["--version", ver, "-c", comp, "--with-listfile"]
        r = ctx.run_cli(args)
        out = os.path.join(d, "out")
        os.makedirs(out)
        rx = ctx.run_cli(["mpq", "extract", os.path.join(d, "t.mpq"), "-o", out]) if r["rc"] == 0 else None
        got = sorted(tree_of(out).values()) if rx is not None else []
        return d, model, args, r, rx, got

    outs = pmap(one, jobs)
    for (ver, comp, sh, rels), (d, model, args, r, rx, got) in zip(jobs, outs):
        viols = []
        detail = {"cmd": short_cmd(args, ctx.scratch), "inputs": rels, "exit": r["rc"], "stderr_tail": r["err"][-300:]}
        if r["rc"] == 0:
            missing = [rel for rel, data in model.items() if data not in got]
            res.add_counter("files_compared", len(model))
            if missing or (rx is not None and rx["rc"] != 0):
                detail["extracted_files"] = len(got)
                viols.append(("exit0-but-failed" if sh != "none" else "roundtrip-differs", f"`mpq create` exited 0 for inputs {rels} but create -> extract does not give back {missing or 'them (extract failed)'}", detail))
        elif sh == "none" and r["rc"] is not None:
            viols.append(("roundtrip-differs", f"`mpq create` exited {rc_class(r['rc'])} on readable inputs with distinct base names", detail))
        res.add_counter(f"same-basenames|{sh}|{'exit0' if r['rc'] == 0 else 'nonzero'}", 1)
        sink.record("mpq", "create", "base-names-" + ("coincide" if sh != "none" else "distinct"), f"{ver}-{sh}", r, viols,
                    sample={"slice": "A4", "cmd": short_cmd(args, ctx.scratch), "exit": r["rc"]}, replay={"slice": "A4", "shape": sh, "version": ver})
        shutil.rmtree(d, ignore_errors=True)


# ------------------------------------------------------------------------------------ slice B: list / info

def lib_view(ctx, items, tag):
    """items: [{'id','path','tmp'?, 'compare_with'?}] -> {id: view} (+ crashed ids with {'crashed': kind})."""
    if not items:
        return {}
    d = ctx.newdir(f"view-{tag}")
    lp = os.path.join(d, "list.json")
    json.dump(items, open(lp, "w"))
    events, crashed = run_journaled(ctx, [ctx.lib, "--view", lp], os.path.join(d, "view.jsonl"), kind_done=("A",))
    out = {}
    for ev in events:
        if ev.get("e") == "A":
            out[ev["id"]] = ev
    for i, kind in crashed.items():
        out[items[i]["id"]] = {"crashed": kind, "id": items[i]["id"]}
    return out


def vget(view, key):
    """verdict string of one library call in a view: ok | err | panic | abort | hang | unknown"""
    if not view:
        return "unknown"
    if "crashed" in view:
        return view["crashed"]
    if key in ("info", "list", "extract_all") and view.get("open", {}).get("v") != "ok":
        return view.get("open", {}).get("v", "unknown")
    return (view.get(key) or {}).get("v", "unknown")


def wildcard_match(name, pat):
    """What `--filter` promises (utils/io.rs: "simple wildcard pattern matching"): without regard to case; `*` stands for any run
    of characters, every other character for itself, and the whole name must be covered. (A pattern without `*` selects the
    names that contain it - the tool's own choice, which the generated filters stay away from.)"""
    name, pat = name.lower(), pat.lower()
    if pat in ("", "*"):
        return True
    if "*" not in pat:
        return pat in name
    return re.fullmatch(".*".join(re.escape(x) for x in pat.split("*")), name, re.S) is not None


def derived_filters(names, k):
    """Filters made from the archive's own names (after C20-r6m2): a suffix, a prefix, an infix, two pieces of one name with the
    middle left out, a piece that occurs more than once in a name, one that selects nothing."""
    out = ["*.txt"]
    plain = sorted(n for n in names if "*" not in n and len(n) >= 3)
    if plain:
        a = plain[k % len(plain)]
        b = plain[(k * 7 + 3) % len(plain)]
        out += ["*" + a[-2:], a[:2] + "*", "*" + b[1:-1] + "*", a[:1] + "*" + a[-1:], b[:2] + "*" + b[-3:], "*" + a[len(a) // 2:]]
        rep = [n for n in plain if any(n.count(n[i:i + 2]) > 1 for i in range(len(n) - 1))]
        if rep:
            r = rep[k % len(rep)]
            piece = next(r[i:i + 2] for i in range(len(r) - 1) if r.count(r[i:i + 2]) > 1)
            out += ["*" + piece, r[:1] + "*" + piece, "*" + r[r.rfind(piece):]]
    out.append("*.no-such-ext")
    seen, uniq = set(), []
    for f in out:
        if f not in seen and not f.startswith("-"):
            seen.add(f)
            uniq.append(f)
    return uniq


def slice_validate_counts(ctx, sink):
    """`mpq validate` on archives in which K of N members cannot be read, K at and around the values where a count stops
    fitting an exit status (after C20-r5m2): any K > 0 is a failed validation, K = 0 a passed one. The archives come from the
    independent writer; a damaged member is a zlib member whose stored bytes behind the sector table are overwritten."""
    import refmpq
    d = ctx.newdir("validate-counts")
    jobs = []
    # (label, number of members, indices of the damaged ones): K leading members damaged, K around the values where a count stops
    # fitting an exit status; and ONE damaged member at the front / in the middle / at the end of archives of more than 1000
    # (thorough: 5000) members, where a tool that works through the members in portions has to carry its tally along (after C20-r8m3)
    plans = []
    for k_bad in ((0, 1, 255, 256, 257, 512) if ctx.thorough else (0, 1, 256, 257)):
        plans.append(("k%d" % k_bad, max(k_bad + 3, 8), list(range(k_bad))))
    for n, at in ((1010, 3), (1010, 1006), (2049, 1200), (1001, 0), (1000, 999)) + (((5003, 7), (5003, 2600), (4097, 4096)) if ctx.thorough else ()):
        plans.append(("n%d-at%d" % (n, at), n, [at]))
    for label, n, bad in plans:
        k_bad = len(bad)
        files = [refmpq.RefFile("v\\f%04d.txt" % i, (b"member %04d of a validation fixture; " % i) * 8, 0x02) for i in range(n)]
        arc, info = refmpq.write_archive(files, version=1, shift=3, listfile=True)
        arc = bytearray(arc)
        for i in bad:
            pos, csize, _fsize, _flags = info["blocks"][i]
            for j in range(pos + 9, pos + csize):
                arc[j] = 0xFF
        path = os.path.join(d, "%s.mpq" % label)
        with open(path, "wb") as f:
            f.write(arc)
        jobs.append((k_bad, n, path, label))
    outs = pmap(lambda j: ctx.run_cli(["mpq", "validate", j[2]]), jobs)
    for (k_bad, n, path, label), r in zip(jobs, outs):
        viols = []
        detail = {"cmd": short_cmd(["mpq", "validate", path], ctx.scratch), "members": n, "unreadable": k_bad, "stdout": r["out"][-300:], "stderr": r["err"][-300:]}
        if r["rc"] is not None:
            if k_bad > 0 and r["rc"] == 0:
                viols.append(("exit0-but-failed", f"`mpq validate` exited 0 on an archive in which {k_bad} of {n} members cannot be read", detail))
            if k_bad == 0 and r["rc"] != 0:
                viols.append(("valid-input-rejected", f"`mpq validate` exited {rc_class(r['rc'])} on an intact archive written by the independent writer", detail))
        sink.res.add_counter("validate_runs_by_damaged_member_count", 1)
        if n >= 1000:
            sink.res.add_counter("validate_runs_on_archives_of_1000_or_more_members", 1)
        sink.record("mpq", "validate", "valid" if k_bad == 0 else "damaged-members", label, r, viols, replay={"slice": "V", "k": k_bad})


def slice_list_info(ctx, sink, archives):
    res = sink.res
    views = lib_view(ctx, [{"id": str(a["idx"]), "path": a["path"]} for a in archives], "B")
    jobs = []
    for a in archives:
        jobs.append((a, "list", "plain", ["mpq", "list", a["path"]]))
        lst = (vget(views.get(str(a["idx"])), "list") == "ok") and views[str(a["idx"])]["list"]["names"] or []
        for flt in derived_filters(lst, a["idx"]):
            jobs.append((a, "list", "filter:" + flt, ["mpq", "list", a["path"], "--filter", flt]))
        jobs.append((a, "list", "long", ["mpq", "list", a["path"], "--long"]))
        jobs.append((a, "info", "plain", ["mpq", "info", a["path"]]))
    outs = pmap(lambda j: ctx.run_cli(j[3]), jobs)
    # the same reports with a standard output that accepts nothing (/dev/full: every write fails with ENOSPC, after C20-r5m1):
    # a report that could not be delivered is a failed command - exit 0 says the reader got the listing
    full_jobs = [(a, sub, args) for a in archives[:6] for sub, args in (("list", ["mpq", "list", a["path"]]), ("list", ["mpq", "list", a["path"], "--long"]), ("info", ["mpq", "info", a["path"]]),
                                                                         ("tree", ["mpq", "tree", a["path"], "--no-color"]))]
    full_outs = pmap(lambda j: ctx.run_cli(j[2], stdout_to="/dev/full"), full_jobs)
    for (a, sub, args), r in zip(full_jobs, full_outs):
        viols = []
        if r["rc"] == 0 and vget(views.get(str(a["idx"])), "open") == "ok":
            viols.append(("exit0-but-failed", f"`mpq {sub}` exited 0 although nothing it printed could be written (standard output = /dev/full)", {"cmd": short_cmd(args, ctx.scratch) + " > /dev/full", "stderr": r["err"][-300:]}))
        res.add_counter("reports_into_a_full_device", 1)
        sink.record("mpq", sub, "valid-stdout-full", "dev-full" + ("-long" if "--long" in args else ""), r, viols, replay={"slice": "B", "archive": a["idx"], "sub": sub, "opt": "dev-full"})
    for (a, sub, opt, args), r in zip(jobs, outs):
        view = views.get(str(a["idx"]))
        viols = []
        rc = r["rc"]
        detail = {"cmd": short_cmd(args, ctx.scratch), "archive": a.get("desc")}
        if rc is not None and vget(view, "open") in ("abort", "hang", "unknown"):
            res.add_inconclusive("library-view-unavailable")
        elif rc is not None and sub == "list":
            if vget(view, "list") != "ok":
                if rc == 0:
                    viols.append(("exit0-but-failed", f"`mpq list` exited 0 but Archive::list() fails on the same archive: {view.get('list')}", detail))
            elif rc != 0:
                viols.append(("list-ne-library", f"`mpq list` exited {rc_class(rc)} on an archive the tool created and the library lists", dict(detail, stderr=r["err"][-400:])))
            else:
                names = view["list"]["names"]
                if opt.startswith("filter:"):
                    names = [n for n in names if wildcard_match(n, opt[7:])]
                    res.add_counter("list_filters_compared", 1)
                    res.add_counter("list_filters_selecting_" + ("nothing" if not names else "some" if len(names) < len(view["list"]["names"]) else "all"), 1)
                lines = [l for l in r["out"].split("\n") if l != ""]
                if opt == "long":
                    # the detailed table: one row per listed name, the name in the first cell (after C20-r3m3)
                    rows = [l for l in lines if l.startswith("| ")]
                    lines = [l[2:].split(" | ")[0].rstrip() for l in rows[1:]]
                    # the table shortens long names to their tail behind "..." (utils::truncate_path): such a row stands for the
                    # one listed name that ends with it
                    for i, l in enumerate(lines):
                        if l.startswith("...") and l not in names:
                            cands = [n for n in names if n.endswith(l[3:]) and n not in lines]
                            if len(cands) == 1:
                                lines[i] = cands[0]
                                res.add_counter("list_long_rows_matched_by_their_shortened_form", 1)
                    res.add_counter("list_long_rows_compared", len(lines))
                if not names and lines and lines[0].startswith("No files found"):
                    lines = []
                res.add_counter("list_comparisons", 1)
                res.add_counter("list_names_compared", len(names))
                if sorted(lines) != sorted(names):
                    viols.append(("list-ne-library", f"`mpq list` ({opt}) prints {len(lines)} names, Archive::list() has {len(names)}: only-cli={sorted(set(lines) - set(names))[:4]} only-library={sorted(set(names) - set(lines))[:4]}",
                                  dict(detail, cli=sorted(lines)[:40], library=sorted(names)[:40])))
        elif rc is not None and sub == "info":
            if vget(view, "info") != "ok":
                if rc == 0:
                    viols.append(("exit0-but-failed", f"`mpq info` exited 0 but open/get_info fails in the library: {view.get('open')} {view.get('info')}", detail))
            elif rc != 0:
                viols.append(("info-count-ne-library", f"`mpq info` exited {rc_class(rc)} on an archive the tool created and the library opens", dict(detail, stderr=r["err"][-400:])))
            else:
                m = re.search(r"^Number of files:\s*(\d+)\s*$", r["out"], re.M)
                res.add_counter("info_comparisons", 1)
                if not m or int(m.group(1)) != view["info"]["file_count"]:
                    viols.append(("info-count-ne-library", f"`mpq info` says {m.group(1) if m else 'nothing'} files, get_info().file_count = {view['info']['file_count']}", dict(detail, stdout=r["out"][-400:])))
                mf = re.search(r"^Format version:\s*(\S+)", r["out"], re.M)
                if mf and mf.group(1) != view["info"].get("format"):
                    viols.append(("info-count-ne-library", f"`mpq info` says format {mf.group(1)}, the library {view['info'].get('format')}", detail))
        sink.record("mpq", sub, "valid", f"cmp-{opt.split(':')[0]}", r, viols, sample={"slice": "B", "cmd": short_cmd(args, ctx.scratch), "exit": rc, "library_names": len((view or {}).get("list", {}).get("names", []))},
                    replay={"slice": "B", "archive": a["idx"], "sub": sub, "opt": opt})
    return views


# ------------------------------------------------------------------------------ slice C1: format families

def gen_manifest(ctx):
    d = os.path.join(ctx.scratch, "gen")
    os.makedirs(d, exist_ok=True)
    events, crashed = run_journaled(ctx, [ctx.gen, "--out", d, "--seed", str(ctx.seed), "--tier", ctx.tier], os.path.join(d, "manifest.jsonl"), kind_done=("F",), reemit=True)
    files = {}
    for ev in events:
        if ev.get("e") == "F":
            files[ev["i"]] = ev  # a --nolib re-emission replaces nothing: the crashed item had no F line
    return [files[i] for i in sorted(files)], crashed


SELF_FAIL = re.compile(r"^\s*(✗|❌|Error:)", re.M)


def stdout_problem(kind, text):
    if kind == "none":
        return None
    if kind == "text":
        return None if text.strip() else "stdout is empty"
    if kind == "json":
        try:
            json.loads(text)
            return None
        except Exception as ex:  # noqa
            return f"stdout is not JSON: {ex}"
    if kind == "csv":
        lines = [l for l in text.split("\n") if l]
        if not lines:
            return "stdout is empty"
        n = lines[0].count(",")
        bad = [l for l in lines if l.count(",") != n]
        return f"CSV rows with a different field count: {bad[:2]}" if bad else None
    return None


def parse_tiles(kind, text):
    """`wdt tiles` output -> sorted [[x, y, area]] or a problem string."""
    try:
        if kind == "json":
            return sorted([int(t["x"]), int(t["y"]), int(t["area_id"])] for t in json.loads(text)), None
        if kind == "csv":
            rows = [l for l in text.split("\n") if l]
            if not rows or rows[0] != "x,y,area_id":
                return None, "no `x,y,area_id` header"
            return sorted([int(c) for c in l.split(",")] for l in rows[1:]), None
        tiles = sorted([int(a), int(b), int(c)] for a, b, c in re.findall(r"^\s*\[\s*(\d+),\s*(\d+)\] - Area ID: (\d+)\s*$", text, re.M))
        m = re.search(r"^Total: (\d+) tiles$", text, re.M)
        if not m:
            return None, "no `Total: N tiles` line"
        if int(m.group(1)) != len(tiles):
            return None, f"`Total: {m.group(1)} tiles` but {len(tiles)} tile lines"
        return tiles, None
    except Exception as ex:  # noqa
        return None, f"unparseable tile listing: {ex}"


def facts_problems(facts, text, stdout_kind):
    """[(clause, what)] - printed numbers / enumerations against the library's view of the same input."""
    out = []
    for f in facts or []:
        if "tiles" in f:
            want = sorted([int(a), int(b), int(c)] for a, b, c in f["tiles"])
            got, prob = parse_tiles(stdout_kind, text)
            if prob:
                out.append(("exit0-output-unparseable", prob))
            elif got != want:
                missing = [t for t in want if t not in got]
                extra = [t for t in got if t not in want]
                out.append(("exit0-output-missing", f"lists {len(got)} of the {len(want)} tiles the library finds (get_tile/has_adt): missing [x,y,area]={missing[:4]} unexpected={extra[:4]}"))
        elif "lines" in f:
            lines = sorted(l for l in text.split("\n") if l)
            if lines != sorted(f["lines"]):
                out.append(("list-ne-library", f"prints {len(lines)} names, the library lists {len(f['lines'])}: only-cli={sorted(set(lines) - set(f['lines']))[:3]} only-library={sorted(set(f['lines']) - set(lines))[:3]}"))
        elif "count" in f:
            n = len(re.findall(f["re"], text, re.M))
            if n != f["count"]:
                out.append(("exit0-output-missing", f"prints {n} lines matching /{f['re']}/, expected {f['count']}"))
        else:
            m = re.search(f["re"], text, re.M)
            if not m:
                if not f.get("optional"):
                    out.append(("exit0-output-missing", f"no line matching /{f['re']}/ (library value {f['want']})"))
            elif m.group(1) != f["want"]:
                out.append(("info-count-ne-library", f"prints {m.group(0).strip()!r}, the library's value is {f['want']}"))
    return out


def judge_sweep(ctx, spec, r, outpath, verify_ok):
    """spec: family, sub, cls, opt, lib (verdict dict), stdout kind, out (kind/path) -> list of violations"""
    viols = []
    rc = r["rc"]
    if rc is None:
        return viols
    lib = spec["lib"].get("v", "unknown")
    detail = {"cmd": spec["show"], "input": spec.get("input"), "library": spec["lib"], "exit": rc, "stdout_tail": r["out"][-400:], "stderr_tail": r["err"][-400:]}
    if rc == 0:
        if lib in ("err", "panic"):
            viols.append(("exit0-but-failed", f"`{spec['family']} {spec['sub']}` ({spec['opt']}) exited 0 on a {spec['cls']} input although the library call it wraps fails: {spec['lib'].get('msg', '')[:160]}", detail))
        elif spec["sub"] == "validate" and SELF_FAIL.search(r["out"]):
            m = SELF_FAIL.search(r["out"])
            line = r["out"][m.start():].split("\n")[0].strip()
            viols.append(("exit0-but-failed", f"`{spec['family']} validate` ({spec['opt']}) reports a failed validation on stdout ({line[:100]!r}) and exits 0", detail))
        if spec.get("expect_fail_reason") and not viols:
            viols.append(("exit0-but-failed", f"`{spec['family']} {spec['sub']}` ({spec['opt']}) exited 0 although {spec['expect_fail_reason']}", detail))
        if not viols:
            sp = stdout_problem(spec.get("stdout", "text"), r["out"])
            if sp:
                viols.append(("exit0-output-missing" if "empty" in sp else "exit0-output-unparseable", f"`{spec['family']} {spec['sub']}` ({spec['opt']}) exited 0 but {sp}", detail))
            if not viols and spec.get("facts"):
                for clause, what in facts_problems(spec["facts"], r["out"], spec.get("stdout", "text")):
                    viols.append((clause, f"`{spec['family']} {spec['sub']}` ({spec['opt']}) exited 0 but {what}", detail))
            if outpath:
                if not os.path.isfile(outpath) or os.path.getsize(outpath) == 0:
                    viols.append(("exit0-output-missing", f"`{spec['family']} {spec['sub']}` ({spec['opt']}) exited 0 but the output file is {'empty' if os.path.isfile(outpath) else 'absent'}", detail))
                elif spec.get("expect") and file_sig(outpath) != spec["expect"]:
                    want_len = int(spec["expect"].split(":")[0])
                    viols.append(("exit0-output-missing", f"`{spec['family']} {spec['sub']}` ({spec['opt']}) exited 0 but its output file ({os.path.getsize(outpath)} bytes) is not what the library call it wraps writes for this input ({want_len} bytes)", detail))
                elif verify_ok is not None and not verify_ok[0]:
                    viols.append(("exit0-output-unparseable", f"`{spec['family']} {spec['sub']}` ({spec['opt']}) exited 0 but its output does not parse again with the library: {verify_ok[1][:160]}", detail))
    return viols


def table_problem(kind, path, arg):
    """Exported DBC tables: JSON array / CSV with header; `arg` = 'records=N' (what the library's parse yields) or ''."""
    want = int(arg.split("=", 1)[1]) if arg.startswith("records=") else None
    try:
        text = open(path, errors="replace").read()
    except OSError as ex:
        return str(ex)
    if kind == "json":
        try:
            v = json.loads(text)
        except Exception as ex:  # noqa
            return f"not JSON: {ex}"
        if want is not None and isinstance(v, list) and len(v) != want:
            return f"JSON array has {len(v)} elements, the library parses {want} records"
        return None
    lines = [l for l in text.split("\n") if l]
    if want == 0:
        return None  # export_to_csv writes nothing for an empty table
    if not lines:
        return "no lines"
    if want is not None and len(lines) != want + 1:
        return f"CSV has {len(lines)} lines, expected header + {want} records"
    return None


def slice_formats(ctx, sink, only=None):
    res = sink.res
    files, crashed = gen_manifest(ctx)
    res.add_counter("gen_input_files", len(files))
    res.add_counter("gen_library_crashed_on_input", len(crashed))
    jobs = []
    for f in files:
        if only is not None and f["i"] != only.get("file"):
            continue
        for k, run in enumerate(f["runs"]):
            if only is not None and only.get("run") is not None and k != only["run"]:
                continue
            jobs.append((f, k, run))
    valid_ok = {}

    def exec_one(job):
        f, k, run = job
        d = ctx.newdir(f"{run['family']}-{run['sub']}")
        outp = os.path.join(d, "out")
        args = [a.replace("{in}", f["file"]).replace("{out}", outp) for a in run["args"]]
        r = ctx.run_cli(args)
        op = run["out"]["path"].replace("{out}", outp) if run.get("out") else None
        return d, args, r, op

    outs = pmap(exec_one, jobs)
    # every report that went to standard output on a valid input, once more with a standard output that accepts nothing
    # (after C20-r7m3, generalising the `mpq list` runs of slice B): exit 0 says the reader got the report
    full_jobs = [(f, k, run) for (f, k, run), (d, args, r, op) in zip(jobs, outs) if f["class"] == "valid" and r["rc"] == 0 and len(r["out"].strip()) > 0]

    def exec_full(job):
        f, k, run = job
        d = ctx.newdir(f"{run['family']}-{run['sub']}-full")
        outp = os.path.join(d, "out")
        args = [a.replace("{in}", f["file"]).replace("{out}", outp) for a in run["args"]]
        r = ctx.run_cli(args, stdout_to="/dev/full")
        shutil.rmtree(d, ignore_errors=True)
        return args, r

    for (f, k, run), (args, r) in zip(full_jobs, pmap(exec_full, full_jobs)):
        viols = []
        if r["rc"] == 0:
            viols.append(("exit0-but-failed", f"`{run['family']} {run['sub']}` ({run['opt']}) exited 0 although nothing it printed could be written (standard output = /dev/full)",
                          {"cmd": short_cmd(args, ctx.scratch) + " > /dev/full", "stderr": r["err"][-300:]}))
        res.add_counter("reports_into_a_full_device", 1)
        sink.record(run["family"], run["sub"], "valid-stdout-full", run["opt"], r, viols, replay={"slice": "C", "file": f["i"], "run": k, "cmd": short_cmd(args, ctx.scratch) + " > /dev/full"})
    # converter / exporter outputs of exit-0 runs: do they parse again with the library?
    vlist = []
    for n, ((f, k, run), (d, args, r, op)) in enumerate(zip(jobs, outs)):
        if r["rc"] == 0 and op and os.path.isfile(op) and os.path.getsize(op) > 0 and run["out"]["kind"] in ("m2", "skin", "anim", "wmo", "adt", "wdt", "wdl", "blp", "png"):
            vlist.append({"id": n, "kind": run["out"]["kind"], "path": op, "arg": run["out"].get("arg", "")})
    verified = {}
    if vlist:
        vd = ctx.newdir("verify")
        lp = os.path.join(vd, "list.json")
        json.dump(vlist, open(lp, "w"))
        events, vcrashed = run_journaled(ctx, [ctx.gen, "--verify", lp], os.path.join(vd, "verify.jsonl"), kind_done=("V",))
        for ev in events:
            if ev.get("e") == "V":
                verified[ev["id"]] = (bool(ev["ok"]), json.dumps(ev.get("v")))
        for i, kind in vcrashed.items():
            verified[vlist[i]["id"]] = (False, f"the library {kind}s while parsing the output")
        res.add_counter("outputs_reparsed_with_library", len(verified))
    for n, ((f, k, run), (d, args, r, op)) in enumerate(zip(jobs, outs)):
        fam, sub, cls, opt = run["family"], run["sub"], f["class"], run["opt"]
        lib = dict(run["lib"])
        spec = {"family": fam, "sub": sub, "cls": cls, "opt": opt, "lib": lib, "stdout": run.get("stdout", "text"), "show": short_cmd(args, ctx.scratch),
                "input": {"format": f["fmt"], "seed_file": f["seed"], "mutation": f["mut"], "size": f["size"]}, "expect": (run.get("out") or {}).get("expect", ""), "facts": run.get("facts") or []}
        if spec["facts"] and r["rc"] == 0:
            res.add_counter("stdout_facts_compared_with_library", len(spec["facts"]))
            for ft in spec["facts"]:
                if "tiles" in ft:
                    res.add_counter("wdt_tile_listings_compared", 1)
                    res.add_counter("wdt_tiles_compared", len(ft["tiles"]))
        if spec["expect"] and r["rc"] == 0:
            res.add_counter("outputs_compared_with_library_writer", 1)
        vok = verified.get(n)
        if op and r["rc"] == 0 and run["out"]["kind"] in ("csv", "json") and os.path.isfile(op):
            cp = table_problem(run["out"]["kind"], op, run["out"].get("arg", ""))
            vok = (cp is None, cp or "")
            if run["out"].get("arg") == "records=0" and run["out"]["kind"] == "csv":
                op = None  # an empty file is the complete CSV of an empty table
        if op and r["rc"] == 0 and run["out"]["kind"] in ("yaml-schema", "text-schema") and os.path.isfile(op):
            txt = open(op, errors="replace").read().lower()
            vok = ("fields:" in txt and ("name:" in txt or "schema:" in txt), "no name / fields entries in the schema file")
        viols = judge_sweep(ctx, spec, r, op, vok)
        if cls == "valid":
            valid_ok.setdefault(fam, [0, 0])
            valid_ok[fam][0] += 1
            valid_ok[fam][1] += 1 if (lib.get("v") == "ok" and r["rc"] == 0) else 0
        if op and r["rc"] == 0:
            res.add_counter("output_files_checked", 1)
        sink.record(fam, sub, cls, opt, r, viols, lib=lib.get("v", "unknown"),
                    sample={"slice": "C", "cmd": spec["show"], "input": spec["input"], "library_verdict": lib, "exit": r["rc"]},
                    replay={"slice": "C", "file": f["i"], "run": k, "input": spec["input"], "cmd": spec["show"]})
        shutil.rmtree(d, ignore_errors=True)
    for fam, (n, ok) in sorted(valid_ok.items()):
        res.add_counter(f"valid-inputs|{fam}|runs", n)
        res.add_counter(f"valid-inputs|{fam}|library-ok-and-exit0", ok)
        if ok == 0 and only is None:
            res.add_inconclusive(f"no-valid-input-accepted:{fam}")
    return files


# ------------------------------------------------------------------------------------- slice C2: MPQ sweep

def mpq_header(data):
    if len(data) < 32 or data[:4] != b"MPQ\x1a":
        return None
    hs, asz, ver, shift, hpos, bpos, hsz, bsz = struct.unpack_from("<IIHHIIII", data, 4)
    return {"header_size": hs, "archive_size": asz, "version": ver, "shift": shift, "hash_pos": hpos, "block_pos": bpos, "hash_size": hsz, "block_size": bsz}


def mpq_variants(ctx, base, view, rnd):
    """[(class, description, bytes)] for one valid archive."""
    data = open(base["path"], "rb").read()
    h = mpq_header(data)
    n = len(data)
    out = []
    cuts = [0, 3, 16, h["header_size"] - 1, h["header_size"] + 9, n // 2, h["hash_pos"] + 5, h["block_pos"] + 3, n - 1]
    if ctx.thorough:
        cuts += [1, 4, 12, 31, h["header_size"], n // 3, 2 * n // 3, h["hash_pos"], h["block_pos"], n - 16]
    for c in sorted(set(x for x in cuts if 0 <= x < n)):
        out.append(("truncated", {"kind": "prefix", "len": c, "of": n}, data[:c]))

    def put(off, fmt, val, cls, what):
        d = bytearray(data)
        struct.pack_into(fmt, d, off, val)
        if bytes(d) != data:
            out.append((cls, {"kind": "field", "field": what, "offset": off, "value": val}, bytes(d)))

    put(4, "<I", 0, "corrupt-header-size", "header_size")
    put(4, "<I", 0xFFFFFFFF, "corrupt-header-size", "header_size")
    put(8, "<I", 0xFFFFFFFF, "corrupt-archive-size", "archive_size")
    put(12, "<H", 7, "corrupt-format-version", "format_version")
    put(14, "<H", 0xFFFF, "corrupt-sector-shift", "block_size")
    put(16, "<I", n + 1, "corrupt-table-pos", "hash_table_pos")
    put(20, "<I", 0xFFFFFFF0, "corrupt-table-pos", "block_table_pos")
    put(24, "<I", 0, "corrupt-table-size", "hash_table_size")
    put(24, "<I", 0x7FFFFFFF, "corrupt-table-size", "hash_table_size")
    put(28, "<I", 0xFFFFFFFF, "corrupt-table-size", "block_table_size")
    if ctx.thorough:
        put(8, "<I", 0, "corrupt-archive-size", "archive_size")
        put(12, "<H", 0xFFFF, "corrupt-format-version", "format_version")
        put(14, "<H", 31, "corrupt-sector-shift", "block_size")
        put(16, "<I", 0, "corrupt-table-pos", "hash_table_pos")
        put(20, "<I", n, "corrupt-table-pos", "block_table_pos")
        put(24, "<I", 3, "corrupt-table-size", "hash_table_size")
        put(28, "<I", 0, "corrupt-table-size", "block_table_size")
        put(28, "<I", 0x10000000, "corrupt-table-size", "block_table_size")

    def flip(off, ln, cls, what):
        if 0 <= off and off + ln <= n:
            d = bytearray(data)
            for i in range(off, off + ln):
                d[i] ^= 0xFF
            out.append((cls, {"kind": "bytes-inverted", "region": what, "offset": off, "len": ln}, bytes(d)))

    # stored bytes of the largest compressed file, and of the listfile
    files = (view or {}).get("files") or {}
    comp = [(v.get("csize", 0), k, v) for k, v in files.items() if v.get("flags", 0) & 0x200 and k not in SPECIAL and v.get("csize", 0) > 40]
    if comp:
        cs, name, v = max(comp)
        flip(v["pos"] + cs // 2, 16, "corrupt-file-data", f"stored bytes of a compressed file ({name!r})")
        if ctx.thorough:
            flip(v["pos"] + 8, 4, "corrupt-file-data", f"start of a compressed file ({name!r})")
    lf = files.get("(listfile)")
    if lf and lf.get("csize", 0) > 8 and lf.get("flags", 0) & 0x200:
        flip(lf["pos"] + lf["csize"] // 2, 4, "corrupt-listfile", "stored bytes of (listfile)")
    flip(h["hash_pos"] + 16, 8, "corrupt-hash-table", "second hash table entry (encrypted)")
    flip(h["block_pos"] + 4, 4, "corrupt-block-table", "first block table entry, stored size (encrypted)")
    return out


def slice_mpq_sweep(ctx, sink, archives, dir_archives, views, only=None):
    res = sink.res
    pick = []
    for want in (("v1", "zlib", True), ("v2", "bzip2", False), ("v4", "lzma", True), ("v3", "none", False)):
        for a in archives:
            if (a["version"], a["comp"], a["listfile"]) == want:
                pick.append(a)
                break
    if not ctx.thorough:
        pick = pick[:3]
    bases = [(a, views.get(str(a["idx"]))) for a in pick]
    if dir_archives:
        dv = lib_view(ctx, [{"id": str(a["idx"]), "path": a["path"]} for a in dir_archives[:1]], "dirs")
        bases.append((dir_archives[0], dv.get(str(dir_archives[0]["idx"]))))
    vdir = ctx.newdir("mpq-variants")
    inputs = []
    for bi, (a, view) in enumerate(bases):
        rnd = random.Random(f"c20-{ctx.seed}-mpqvar-{bi}")
        inputs.append({"id": f"b{bi}-valid", "path": a["path"], "cls": "valid", "mut": {"kind": "identity"}, "base": a})
        for vi, (cls, desc, data) in enumerate(mpq_variants(ctx, a, view, rnd)):
            p = os.path.join(vdir, f"b{bi}-v{vi:02d}.mpq")
            with open(p, "wb") as fh:
                fh.write(data)
            inputs.append({"id": f"b{bi}-v{vi:02d}", "path": p, "cls": cls, "mut": desc, "base": a})
    if only is not None:
        inputs = [x for x in inputs if x["id"] == only.get("input")]
    def base_probe(x):
        bn = [n for n in ((views.get(str(x["base"]["idx"])) or {}).get("list") or {}).get("names", []) if n not in SPECIAL] or list(x["base"].get("model", {}))
        return (bn or ["readme.txt"])[0]

    items = [{"id": x["id"], "path": x["path"], "tmp": os.path.join(vdir, x["id"] + ".librebuild.mpq"), "compare_with": x["base"]["path"], "probe": base_probe(x)} for x in inputs]
    vv = lib_view(ctx, items, "C2")
    res.add_counter("mpq_sweep_inputs", len(inputs))
    jobs = []
    for x in inputs:
        view = vv.get(x["id"])
        probe = base_probe(x)
        P = x["path"]
        openv, infov, listv = vget(view, "open"), vget(view, "info"), vget(view, "list")
        oi = "ok" if (openv == "ok" and infov == "ok") else (openv if openv != "ok" else infov)
        oil = oi if oi != "ok" else listv
        findv = openv if openv != "ok" else vget(view, "find")

        def J(sub, opt, args, lib, **kw):
            jobs.append(dict(x=x, view=view, sub=sub, opt=opt, args=args, lib=lib, **kw))

        fc = ((view or {}).get("info") or {}).get("file_count")
        lnames = ((view or {}).get("list") or {}).get("names")
        f_info = [{"re": r"^Number of files: (\d+)$", "want": str(fc)}] if fc is not None else []
        f_tree = [{"re": r"files: (\d+)", "want": str(fc)}] if fc is not None else []
        f_debug = [{"re": r"^Files: (\d+)/", "want": str(fc)}] if fc is not None else []
        f_list = [{"lines": lnames}] if lnames else []
        f_val = [{"re": r"validation passed - (\d+) files", "want": str(len(lnames)), "optional": True}] if lnames is not None else []

        J("info", "default", ["mpq", "info", P], oi, facts=f_info)
        J("info", "tables", ["mpq", "info", P, "--show-hash-table", "--show-block-table"], oi)
        J("info", "file", ["mpq", "info", P, probe], findv)
        J("info", "absent-file", ["mpq", "info", P, "no such file.xyz"], "err" if oi == "ok" else oi, fail_reason="the named file is not in the archive")
        J("list", "default", ["mpq", "list", P], oil, facts=f_list)
        J("list", "long", ["mpq", "list", P, "--long"], oil)
        J("validate", "default", ["mpq", "validate", P], vget(view, "validate"), facts=f_val)
        J("validate", "threads2-checksums", ["mpq", "validate", P, "--threads", "2", "--check-checksums"], vget(view, "validate"))
        J("extract", "all", ["mpq", "extract", P, "-o", "{out}/x", "-p"], vget(view, "extract_all"), extract="strict")
        J("extract", "all-skip-errors", ["mpq", "extract", P, "-o", "{out}/x", "-p", "--skip-errors", "--threads", "2"], oil if vget(view, "extract_all") in ("ok", "err") else vget(view, "extract_all"), extract="skip")
        J("tree", "default", ["mpq", "tree", P, "--no-color"], oil, facts=f_tree)
        J("tree", "compact-depth", ["mpq", "tree", P, "--no-color", "--compact", "--depth", "2", "--no-external-refs"], oil)
        J("debug", "all", ["mpq", "debug", P, "--all"], oi, facts=f_debug)
        J("debug", "hash-table-raw", ["mpq", "debug", P, "--hash-table", "--raw"], oi)
        J("debug", "block-table-raw", ["mpq", "debug", P, "--block-table", "--raw"], oi)
        J("debug", "find", ["mpq", "debug", P, "--find", probe], oi)
        J("debug", "entry", ["mpq", "debug", P, "--entry", "0"], oi)
        J("rebuild", "default", ["mpq", "rebuild", P, "{out}/rebuilt.mpq"], vget(view, "rebuild"), rebuild=True)
        J("rebuild", "list-only", ["mpq", "rebuild", P, "{out}/never.mpq", "--list-only"], "unknown" if vget(view, "rebuild") != "ok" else "ok")
        J("compare", "vs-original", ["mpq", "compare", P, x["base"]["path"]], vget(view, "compare"))
        J("compare", "summary-content", ["mpq", "compare", x["base"]["path"], P, "--output", "summary", "--content-check"], "unknown" if vget(view, "compare") != "ok" else "unknown")
        J("patch-chain", "base-only", ["mpq", "patch-chain", P], vget(view, "chain"))
        J("patch-chain", "as-patch-detailed", ["mpq", "patch-chain", x["base"]["path"], "--patch", P, "--detailed"], "unknown" if vget(view, "chain") == "ok" else vget(view, "chain"))
        J("db", "analyze", ["mpq", "db", "analyze", P], openv, own_home=True, stdout="none")
        if x["cls"] == "valid":
            J("list", "record-to-db", ["mpq", "list", P, "--record-to-db"], oil, own_home=True)
            J("list", "use-db", ["mpq", "list", P, "--use-db"], oil, own_home=True)
            J("list", "show-patches", ["mpq", "list", P, "--show-patches"], oil)
            J("extract", "patch-chain", ["mpq", "extract", x["base"]["path"], "--patch", P, "-o", "{out}/x", "-p"], "unknown")
            J("db", "status", ["mpq", "db", "status", "--detailed"], "ok", own_home=True)
            J("db", "lookup", ["mpq", "db", "lookup", probe], "ok", own_home=True)
            J("db", "list", ["mpq", "db", "list", "--long"], "ok", own_home=True, stdout="none")
            J("db", "import-archive", ["mpq", "db", "import", P, "archive"], "unknown", own_home=True)
            J("db", "export", ["mpq", "db", "export", "{out}/names.txt"], "ok", own_home=True, outfile="{out}/names.txt", outfile_may_be_empty=True)

    def exec_one(j):
        d = ctx.newdir(f"mpq-{j['sub']}")
        j["dir"] = d
        j["cmd"] = [a.replace("{out}", d) for a in j["args"]]
        return ctx.run_cli(j["cmd"], own_home=j.get("own_home", False))

    outs = pmap(exec_one, jobs)
    # rebuilt archives of exit-0 runs: look at them with the library
    rb = []
    for n, (j, r) in enumerate(zip(jobs, outs)):
        if j.get("rebuild") and r["rc"] == 0:
            p = os.path.join(j["dir"], "rebuilt.mpq")
            if os.path.isfile(p):
                rb.append({"id": str(n), "path": p})
    rbv = lib_view(ctx, rb, "rebuilt") if rb else {}
    for n, (j, r) in enumerate(zip(jobs, outs)):
        x, view = j["x"], j["view"]
        spec = {"family": "mpq", "sub": j["sub"], "cls": x["cls"], "opt": j["opt"], "lib": {"v": j["lib"]}, "stdout": j.get("stdout", "text"), "show": short_cmd(j["cmd"], ctx.scratch),
                "input": {"format": "mpq", "base": x["base"].get("desc"), "mutation": x["mut"]}, "facts": j.get("facts") or []}
        if spec["facts"] and r["rc"] == 0:
            res.add_counter("stdout_facts_compared_with_library", len(spec["facts"]))
        if view and j["lib"] in ("err", "panic"):
            key = {"validate": "validate", "extract": "extract_all", "rebuild": "rebuild", "compare": "compare", "patch-chain": "chain", "list": "list", "tree": "list"}.get(j["sub"], "open")
            src = view.get(key) if isinstance(view.get(key), dict) and view.get(key, {}).get("v") != "ok" else (view.get("open") if view.get("open", {}).get("v") != "ok" else view.get(key))
            if isinstance(src, dict):
                spec["lib"] = {"v": j["lib"], "msg": str(src.get("msg", ""))[:200], "call": key}
        if j.get("fail_reason") and j["lib"] == "err":
            spec["expect_fail_reason"] = j["fail_reason"]
            spec["lib"]["msg"] = j["fail_reason"]
        op = j.get("outfile", "").replace("{out}", j["dir"]) or None
        viols = judge_sweep(ctx, spec, r, None if j.get("outfile_may_be_empty") else op, None)
        if op and j.get("outfile_may_be_empty") and r["rc"] == 0 and not os.path.isfile(op):
            viols.append(("exit0-output-missing", f"`mpq {j['sub']}` ({j['opt']}) exited 0 but did not create its output file", {"cmd": spec["show"]}))
        rc = r["rc"]
        detail = {"cmd": spec["show"], "input": spec["input"], "exit": rc, "stdout_tail": r["out"][-300:], "stderr_tail": r["err"][-300:]}
        if rc == 0 and j.get("extract") and view and "crashed" not in view and not viols:
            # complete output: every name the library reads must be on disk with the library's bytes (strict: every listed name)
            got = tree_of(os.path.join(j["dir"], "x")) if os.path.isdir(os.path.join(j["dir"], "x")) else {}
            gotd = {k: (len(v), fnv64(v)) for k, v in got.items()}
            names = (view.get("extract_all") or {}).get("names") or []
            files = view.get("files") or {}
            missing, differ = [], []
            for nm in names:
                fv = files.get(nm)
                if not fv or fv.get("read", {}).get("v") != "ok":
                    continue
                rel = nm.replace("\\", "/")
                res.add_counter("sweep_extracted_files_compared", 1)
                if rel not in gotd:
                    missing.append(nm)
                elif gotd[rel] != (fv["size"], fv["digest"]):
                    differ.append(nm)
            if missing or differ:
                viols.append(("exit0-output-missing", f"`mpq extract` ({j['opt']}) exited 0 but files the library reads from the same archive are missing ({missing[:3]}) or differ ({differ[:3]}) on disk", detail))
        if rc == 0 and j.get("rebuild") and re.search(r"^Skipped files: [1-9]", r["out"], re.M):
            # rebuild_archive itself returns Ok after skipping unreadable files (C07's subject): the CLI repeats the library's answer
            res.add_counter("rebuild_exit0_reporting_skipped_files", 1)
        if rc == 0 and j.get("rebuild") and not viols:
            p = os.path.join(j["dir"], "rebuilt.mpq")
            tv = rbv.get(str(n))
            if not os.path.isfile(p) or os.path.getsize(p) == 0:
                viols.append(("exit0-output-missing", "`mpq rebuild` exited 0 but left no target archive", detail))
            elif vget(tv, "open") in ("err", "panic") or vget(tv, "list") in ("err", "panic"):
                viols.append(("exit0-output-unparseable", f"`mpq rebuild` exited 0 but the target archive does not open/list with the library: {tv.get('open')} {tv.get('list')}", detail))
            elif tv and view and "crashed" not in tv and "crashed" not in view:
                sf, tf = view.get("files") or {}, tv.get("files") or {}
                lost = [nm for nm, fv in sf.items() if nm not in SPECIAL and fv.get("read", {}).get("v") == "ok" and (nm not in tf or tf[nm].get("digest") != fv.get("digest"))]
                res.add_counter("rebuilt_archives_compared", 1)
                if lost:
                    viols.append(("exit0-output-missing", f"`mpq rebuild` exited 0 but files the library reads from the source are absent from / different in the target: {lost[:4]}", detail))
        sink.record("mpq", j["sub"], x["cls"], j["opt"], r, viols, lib=j["lib"],
                    sample={"slice": "C", "cmd": spec["show"], "input": spec["input"], "library_verdict": spec["lib"], "exit": rc},
                    replay={"slice": "C2", "input": x["id"], "sub": j["sub"], "opt": j["opt"], "mutation": x["mut"], "base": x["base"].get("desc"), "cmd": spec["show"]})
        shutil.rmtree(j["dir"], ignore_errors=True)
    return bases


# --------------------------------------------------------------------- slice C3: unreadable input, bad options

def slice_unreadable(ctx, sink, archives, gen_files):
    d = ctx.newdir("unreadable")
    missing = os.path.join(d, "does-not-exist.bin")
    adir = os.path.join(d, "a-directory")
    os.makedirs(adir)
    schema = os.path.join(ctx.scratch, "gen", "schema0.yaml")
    valid = {}
    for f in gen_files:
        if f["class"] == "valid":
            valid.setdefault(f["fmt"], f["file"])
    some_mpq = archives[0]["path"] if archives else missing
    some_in = archives[0]["create_args"][4] if archives else missing
    cmds = []
    for cls, p in (("unreadable-missing-file", missing), ("unreadable-directory", adir)):
        o = os.path.join(d, "o")
        cmds += [
            (cls, "blp", "info", "default", ["blp", "info", p]), (cls, "blp", "validate", "default", ["blp", "validate", p]), (cls, "blp", "convert", "to-png", ["blp", "convert", p, o + ".png", "-i", "blp"]),
            (cls, "dbc", "info", "default", ["dbc", "info", p]), (cls, "dbc", "list", "no-schema", ["dbc", "list", p]), (cls, "dbc", "export", "json-file", ["dbc", "export", p, "--schema", schema, "--output", o + ".json"]),
            (cls, "dbc", "analyze", "no-schema", ["dbc", "analyze", p]), (cls, "dbc", "validate", "schema", ["dbc", "validate", p, "--schema", schema]), (cls, "dbc", "discover", "text", ["dbc", "discover", p]),
            (cls, "dbd", "convert", "default", ["dbd", "convert", p, "--output", o + ".schemas"]),
            (cls, "m2", "info", "default", ["m2", "info", p]), (cls, "m2", "validate", "default", ["m2", "validate", p]), (cls, "m2", "tree", "default", ["m2", "tree", p]),
            (cls, "m2", "convert", "to-wotlk", ["m2", "convert", p, o + ".m2", "--version", "wotlk"]), (cls, "m2", "skin-info", "default", ["m2", "skin-info", p]),
            (cls, "m2", "skin-convert", "to-cata", ["m2", "skin-convert", p, o + ".skin", "--version", "cata"]), (cls, "m2", "anim-info", "default", ["m2", "anim-info", p]),
            (cls, "m2", "anim-convert", "to-legion", ["m2", "anim-convert", p, o + ".anim", "--version", "legion"]), (cls, "m2", "blp-info", "default", ["m2", "blp-info", p]),
            (cls, "wmo", "info", "default", ["wmo", "info", p]), (cls, "wmo", "validate", "default", ["wmo", "validate", p]), (cls, "wmo", "tree", "default", ["wmo", "tree", p]),
            (cls, "wmo", "convert", "to-cata", ["wmo", "convert", p, o + ".wmo", "--version", "cata"]),
            (cls, "adt", "info", "default", ["adt", "info", p]), (cls, "adt", "validate", "default", ["adt", "validate", p]), (cls, "adt", "tree", "default", ["adt", "tree", p]),
            (cls, "adt", "convert", "to-wotlk", ["adt", "convert", p, o + ".adt", "--to", "wotlk"]),
            (cls, "wdt", "info", "default", ["wdt", "info", p]), (cls, "wdt", "validate", "default", ["wdt", "validate", p]), (cls, "wdt", "tiles", "text", ["wdt", "tiles", p]),
            (cls, "wdt", "tree", "default", ["wdt", "tree", p]), (cls, "wdt", "convert", "own-to-cata", ["wdt", "convert", p, o + ".wdt", "-f", "wotlk", "-t", "cata"]),
            (cls, "wdl", "info", "default", ["wdl", "info", p]), (cls, "wdl", "validate", "auto", ["wdl", "validate", p]), (cls, "wdl", "tree", "default", ["wdl", "tree", p]),
            (cls, "wdl", "convert", "to-legion", ["wdl", "convert", p, o + ".wdl", "--to", "legion"]),
            (cls, "mpq", "info", "default", ["mpq", "info", p]), (cls, "mpq", "list", "default", ["mpq", "list", p]), (cls, "mpq", "validate", "default", ["mpq", "validate", p]),
            (cls, "mpq", "extract", "all", ["mpq", "extract", p, "-o", o + ".x"]), (cls, "mpq", "tree", "default", ["mpq", "tree", p]), (cls, "mpq", "debug", "all", ["mpq", "debug", p, "--all"]),
            (cls, "mpq", "rebuild", "default", ["mpq", "rebuild", p, o + ".mpq"]), (cls, "mpq", "compare", "vs-original", ["mpq", "compare", p, some_mpq]),
            (cls, "mpq", "patch-chain", "base-only", ["mpq", "patch-chain", p]), (cls, "mpq", "create", "input-file", ["mpq", "create", o + ".c.mpq", "-a", p]),
            (cls, "mpq", "extract", "patch-chain", ["mpq", "extract", some_mpq, "--patch", p, "-o", o + ".px"]),
        ]
    o = os.path.join(d, "bo")
    bad = "bad-option-value"
    cmds += [
        (bad, "mpq", "create", "version", ["mpq", "create", o + "1.mpq", "-a", some_in, "--version", "v9"]),
        (bad, "mpq", "create", "compression", ["mpq", "create", o + "2.mpq", "-a", some_in, "-c", "pkzip"]),
        (bad, "mpq", "rebuild", "compression", ["mpq", "rebuild", some_mpq, o + "3.mpq", "--compression", "pkzip"]),
        (bad, "mpq", "create", "unwritable-target", ["mpq", "create", os.path.join(missing, "x.mpq"), "-a", some_in]),
        (bad, "mpq", "extract", "unwritable-target", ["mpq", "extract", some_mpq, "-o", os.path.join(some_in, "sub")]),
    ]
    if valid.get("m2"):
        cmds.append((bad, "m2", "convert", "version", ["m2", "convert", valid["m2"], o + ".m2", "--version", "no-such-expansion"]))
        cmds.append((bad, "m2", "convert", "unwritable-target", ["m2", "convert", valid["m2"], os.path.join(missing, "x.m2"), "--version", "wotlk"]))
    if valid.get("skin"):
        cmds.append((bad, "m2", "skin-convert", "version", ["m2", "skin-convert", valid["skin"], o + ".skin", "--version", "no-such-expansion"]))
    if valid.get("wmo-root"):
        cmds.append((bad, "wmo", "convert", "version", ["wmo", "convert", valid["wmo-root"], o + ".wmo", "--version", "no-such-expansion"]))
        cmds.append((bad, "wmo", "convert", "unwritable-target", ["wmo", "convert", valid["wmo-root"], os.path.join(missing, "x.wmo"), "--version", "cata"]))
    if valid.get("adt"):
        cmds.append((bad, "adt", "convert", "version", ["adt", "convert", valid["adt"], o + ".adt", "--to", "no-such-expansion"]))
        cmds.append((bad, "adt", "convert", "unwritable-target", ["adt", "convert", valid["adt"], os.path.join(missing, "x.adt"), "--to", "wotlk"]))
    if valid.get("wdt"):
        cmds.append((bad, "wdt", "info", "version", ["wdt", "info", valid["wdt"], "--version", "no-such-expansion"]))
        cmds.append((bad, "wdt", "convert", "unwritable-target", ["wdt", "convert", valid["wdt"], os.path.join(missing, "x.wdt"), "-f", "classic", "-t", "cata"]))
    if valid.get("wdl"):
        cmds.append((bad, "wdl", "convert", "version", ["wdl", "convert", valid["wdl"], o + ".wdl", "--to", "no-such-expansion"]))
        cmds.append((bad, "wdl", "convert", "unwritable-target", ["wdl", "convert", valid["wdl"], os.path.join(missing, "x.wdl"), "--to", "legion"]))
    if valid.get("blp"):
        cmds.append((bad, "blp", "convert", "alpha-bits", ["blp", "convert", valid["blp"], o + ".blp", "--blp-version", "blp2", "--blp-format", "dxt1", "--alpha-bits", "8"]))
        cmds.append((bad, "blp", "convert", "mipmap-level", ["blp", "convert", valid["blp"], o + ".png", "--mipmap-level", "99"]))
        cmds.append((bad, "blp", "convert", "unwritable-target", ["blp", "convert", valid["blp"], os.path.join(missing, "x.png")]))
    if valid.get("dbc"):
        cmds.append((bad, "dbc", "export", "schema-missing", ["dbc", "export", valid["dbc"], "--schema", missing]))
        cmds.append((bad, "dbc", "export", "unwritable-target", ["dbc", "export", valid["dbc"], "--schema", schema, "--output", os.path.join(missing, "x.json")]))
        cmds.append((bad, "dbc", "analyze", "mmap", ["dbc", "analyze", valid["dbc"], "--mmap"]))
    # Archive::open on a directory scans for a header without end (C19's finding `open-archive-on-directory`): a hang is not an exit status, left out here
    cmds = [c for c in cmds if not (c[1] == "mpq" and c[0] == "unreadable-directory")]
    # the global options are part of every invocation's configuration (after C20-r3m1): each failing command also runs with
    # --quiet in front of the sub-command, every third one with -q behind it, every fifth one with -vv
    extra = []
    for i, (cls, fam, sub, opt, args) in enumerate(cmds):
        extra.append((cls, fam, sub, opt + "+quiet", ["--quiet"] + args))
        if i % 3 == 0:
            extra.append((cls, fam, sub, opt + "+q-behind", args + ["-q"]))
        if i % 5 == 0:
            extra.append((cls, fam, sub, opt + "+vv", ["-vv"] + args))
    cmds += extra
    outs = pmap(lambda c: ctx.run_cli(c[4]), cmds)
    for (cls, fam, sub, opt, args), r in zip(cmds, outs):
        why = {"unreadable-missing-file": "the input path does not exist", "unreadable-directory": "the input path is a directory"}.get(cls, "the option value / target cannot be honoured")
        if fam == "mpq" and cls == "unreadable-directory":
            continue
        spec = {"family": fam, "sub": sub, "cls": cls, "opt": opt, "lib": {"v": "unknown"}, "expect_fail_reason": why, "stdout": "none", "show": short_cmd(args, ctx.scratch), "input": {"class": cls}}
        viols = judge_sweep(ctx, spec, r, None, None)
        sink.record(fam, sub, cls, opt, r, viols, lib="err", sample=None, replay={"slice": "C3", "cmd": spec["show"]})
    slice_inplace(ctx, sink, d, valid)
    shutil.rmtree(d, ignore_errors=True)


def slice_inplace(ctx, sink, d, valid):
    """Converters asked to write their output over their input (output path == input path, directly and through a symbolic
    link): the command does what it does for a separate output path - same exit status, and with exit 0 the file afterwards
    holds exactly the bytes the separate-path run produced; with a non-zero exit the input is still there unchanged."""
    convs = [
        ("m2", "m2", "convert", lambda i, o: ["m2", "convert", i, o, "--version", "wotlk"]),
        ("skin", "m2", "skin-convert", lambda i, o: ["m2", "skin-convert", i, o, "--version", "cata"]),
        ("wmo-root", "wmo", "convert", lambda i, o: ["wmo", "convert", i, o, "--version", "cata"]),
        ("adt", "adt", "convert", lambda i, o: ["adt", "convert", i, o, "--to", "wotlk"]),
        ("wdt", "wdt", "convert", lambda i, o: ["wdt", "convert", i, o, "-f", "wotlk", "-t", "cata"]),
        ("wdl", "wdl", "convert", lambda i, o: ["wdl", "convert", i, o, "--to", "legion"]),
        ("blp", "blp", "convert", lambda i, o: ["blp", "convert", i, o, "--blp-version", "blp2", "--blp-format", "raw1"]),
    ]
    jobs = []
    for fmt, fam, sub, mk in convs:
        src = valid.get(fmt)
        if not src:
            continue
        ext = os.path.splitext(src)[1] or "." + fmt
        for how in ("same-path", "through-symlink"):
            jobs.append((fmt, fam, sub, mk, src, ext, how))

    def run_one(job):
        fmt, fam, sub, mk, src, ext, how = job
        wd = os.path.join(d, f"inplace-{fmt}-{how}")
        os.makedirs(wd)
        ref_out = os.path.join(wd, "ref-out" + ext)
        r0 = ctx.run_cli(mk(src, ref_out))
        work = os.path.join(wd, "work" + ext)
        shutil.copyfile(src, work)
        outp = work
        if how == "through-symlink":
            outp = os.path.join(wd, "alias" + ext)
            os.symlink(os.path.basename(work), outp)
        r1 = ctx.run_cli(mk(work, outp))
        def digest(p):
            try:
                with open(p, "rb") as fh:
                    b = fh.read()
                return hashlib.sha256(b).hexdigest(), len(b)
            except OSError:
                return None, None
        return {"ref_rc": r0["rc"], "rc": r1["rc"], "ref": digest(ref_out), "after": digest(work), "before": digest(src), "r": r1, "stderr": (r1.get("err") or "")[-200:]}

    outs = pmap(run_one, jobs)
    for (fmt, fam, sub, mk, src, ext, how), o in zip(jobs, outs):
        viols = []
        show = short_cmd(mk("$IN", "$IN"), ctx.scratch)
        det = {"cmd": show, "how": how, "exit_separate_path": o["ref_rc"], "exit_in_place": o["rc"], "separate_output": o["ref"], "file_afterwards": o["after"], "input": o["before"], "stderr_tail": o["stderr"]}
        if o["ref_rc"] == 0 and o["rc"] != 0:
            viols.append((f"in-place-conversion-fails|{fam}|{sub}", f"`{fam} {sub}` with the output path naming the input file ({how}) exits {o['rc']} although the same conversion to a separate path exits 0; file afterwards: {o['after'][1]} bytes (input {o['before'][1]})", det))
        elif o["ref_rc"] == 0 and o["rc"] == 0 and o["after"] != o["ref"]:
            viols.append((f"in-place-conversion-output-differs|{fam}|{sub}", f"`{fam} {sub}` in place ({how}) exits 0 but the file afterwards ({o['after'][1]} bytes) is not what the separate-path run wrote ({o['ref'][1]} bytes)", det))
        elif o["rc"] != 0 and o["after"] != o["before"]:
            viols.append((f"failed-in-place-conversion-destroys-input|{fam}|{sub}", f"`{fam} {sub}` in place ({how}) exits {o['rc']} and the input file is no longer what it was ({o['after'][1]} bytes, was {o['before'][1]})", det))
        sink.res.add_counter("in_place_conversions", 1)
        sink.record(fam, sub, "valid", f"in-place-{how}", o["r"], viols, lib="ok", sample=None, replay={"slice": "C3", "cmd": show})


# ------------------------------------------------------------------------------------- slice D: memcheck

def slice_memcheck(ctx, sink, archives):
    res = sink.res
    if not shutil.which("valgrind"):
        res.add_inconclusive("valgrind-not-available")
        return
    pick = []
    for want in (("v1", "zlib"), ("v2", "none"), ("v4", "lzma")):
        for a in archives:
            if (a["version"], a["comp"]) == want:
                pick.append(a)
                break
    jobs = [(a, flag) for a in pick for flag in ("--hash-table", "--block-table")]

    def one(j):
        a, flag = j
        return ctx.run_cli(["mpq", "debug", a["path"], flag, "--raw"], prefix=["valgrind", "--error-exitcode=9", "-q"], timeout=900)

    outs = pmap(one, jobs, workers=6)
    errs = 0
    for (a, flag), r in zip(jobs, outs):
        viols = []
        rc = r["rc"]
        if rc is not None and ("valgrind:" in r["err"] and "==" not in r["err"] and rc not in (0, 9)):
            res.add_inconclusive("valgrind-could-not-run")
            res.notes.append("valgrind: " + r["err"][-200:])
            continue
        if rc == 9 or "== Invalid" in r["err"] or "uninitialised" in r["err"]:
            errs += 1
            viols.append(("memcheck", f"valgrind memcheck reports an error in `mpq debug {flag} --raw`", {"stderr": r["err"][-1200:], "archive": a.get("desc")}))
        res.add_counter("memcheck_runs", 1)
        sub = "debug" + flag + "--raw"
        res.cases += 1
        res.add_counter(f"exit|valgrind|{rc_class(rc)}", 1)
        if rc is None:
            res.add_inconclusive("valgrind-timeout")
            continue
        res.classes.add(f"mpq|{sub}|valid|memcheck")
        if viols:
            res.verdicts["viol"] += 1
            res.add_violation(f"memcheck|{sub}", viols[0][1], viols[0][2], {"property": PROP, "tier": ctx.tier, "seed": ctx.seed, "slice": "D"})
        else:
            res.verdicts["held"] += 1
    res.add_counter("memcheck_errors", errs)


# --------------------------------------------------------------------------------------------------- main

def build_all():
    cli = os.environ.get("VERIF_CLI")
    if cli:
        if not os.path.isfile(cli):
            raise sup.Broken(f"VERIF_CLI={cli} does not exist")
    else:
        cli = sup.build_cli()
    return cli, sup.build("vh-formats", "c20_gen"), sup.build("vh-mpq", "c20_lib")


def run(tier, seed, scratch, t0):
    cli, gen, lib = build_all()
    sup.log(f"[C20] cli={cli} ({time.time()-t0:.1f}s)")
    ctx = Ctx(tier, seed, scratch, cli, gen, lib)
    res = sup.Result(PROP)
    sink = Sink(res, tier, int(seed))
    probe = ctx.run_cli(["--version"])
    if probe["rc"] != 0:
        raise sup.Broken(f"the CLI does not start: rc={probe['rc']} {probe['err'][-300:]}")
    archives, filesets = slice_roundtrip(ctx, sink)
    sup.log(f"[C20] A: {len(archives)} archives, {res.cases} runs ({time.time()-t0:.1f}s)")
    dir_archives = slice_dirs(ctx, sink, filesets)
    slice_overwrite(ctx, sink, archives, filesets)
    unw_archives = slice_unwritable_names(ctx, sink)
    slice_same_basenames(ctx, sink)
    slice_validate_counts(ctx, sink)
    sup.log(f"[C20] A2/A3 done, {res.cases} runs ({time.time()-t0:.1f}s)")
    views = slice_list_info(ctx, sink, archives + dir_archives + unw_archives)
    sup.log(f"[C20] B done, {res.cases} runs ({time.time()-t0:.1f}s)")
    gen_files = slice_formats(ctx, sink)
    sup.log(f"[C20] C1 done, {res.cases} runs ({time.time()-t0:.1f}s)")
    slice_mpq_sweep(ctx, sink, archives, dir_archives, views)
    slice_unreadable(ctx, sink, archives, gen_files)
    sup.log(f"[C20] C2/C3 done, {res.cases} runs ({time.time()-t0:.1f}s)")
    if ctx.thorough:
        slice_memcheck(ctx, sink, archives)
        sup.log(f"[C20] D done ({time.time()-t0:.1f}s)")
    extra = {"cli_binary": cli, "families": {k: len(v) for k, v in sorted(sink.classes_by_family.items())}}
    return sup.finish(res, tier, seed, "exploration", RULE, t0, assumptions=ASSUME, min_cases=300 if tier == "quick" else 1500, extra_cov=extra)


def replay(rp, scratch):
    """Re-execute the recorded slice item (the workload is a deterministic function of tier + seed) and report what it shows."""
    r = rp["replay"]
    t0 = time.time()
    cli, gen, lib = build_all()
    ctx = Ctx(r["tier"], r["seed"], scratch, cli, gen, lib)
    res = sup.Result(PROP)
    sink = Sink(res, r["tier"], int(r["seed"]))
    sl = r.get("slice")
    if sl == "A3":
        slice_unwritable_names(ctx, sink)
    elif sl == "V":
        slice_validate_counts(ctx, sink)
    elif sl in ("A", "A-dirs", "B", "C2", "C3", "D"):
        archives, filesets = slice_roundtrip(ctx, sink)
        dirs = slice_dirs(ctx, sink, filesets)
        if sl == "A":
            slice_overwrite(ctx, sink, archives, filesets)
        views = slice_list_info(ctx, sink, archives + dirs)
        if sl == "C2":
            slice_mpq_sweep(ctx, sink, archives, dirs, views, only={"input": r.get("input")})
        if sl == "C3":
            slice_unreadable(ctx, sink, archives, [])
        if sl == "D":
            slice_memcheck(ctx, sink, archives)
    elif sl == "C":
        slice_formats(ctx, sink, only={"file": r.get("file"), "run": r.get("run")})
    found = False
    for sig, w in res.violations.items():
        print(f"REPLAY violation sig={sig} what={str(w['what'])[:400]}")
        if sig == rp.get("signature"):
            found = True
    print(f"REPLAY runs={res.cases} wall={time.time()-t0:.1f}s")
    if found:
        print(f"VIOLATION property={PROP} replay=(reproduced) signature={rp['signature']}")
        return sup.EXIT_VIOLATION
    print("REPLAY did not reproduce the recorded signature")
    return sup.EXIT_HELD
