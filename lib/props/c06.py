"""C06 — in-place modification behaves as a persistent name→bytes map (DESIGN.md §6 C06)."""
import sup

RULE = ("one case = one operation history on MutableArchive, checked against a BTreeMap model after close + reopen with the read-only Archive (every model name read, "
        "every removed name absent, list() superset when a listfile exists). Bounded-exhaustive core: every single operation of a 98-letter alphabet "
        "(add x {zlib,none,zlib+enc,none+fixkey} x 2 sizes x replace flag, remove, rename, compact, flush, reopen over 5 names incl. hash-colliding and case/slash variants) "
        "on all 16 starting archives (V1-V4 x listfile x attributes), every pair of operations on 2 (quick) / 6 (thorough) starting archives, sampled triples (thorough); "
        "plus random histories of 20-120 operations over up to 33 names (more additions than free hash slots; block-table growth beyond the slack). "
        "distinct = distinct (start archive, operation-kind sequence / length class) executed.")
ASSUME = ["read-your-writes through MutableArchive::read_file before reopening is observed and counted but is not part of the statement",
          "signatures under a history-level trigger predicate (taint) carry only the predicate: once it holds the archive may be damaged arbitrarily",
          "hook: probe_step in modification::add_to_hash_table turns a non-terminating probe loop into a tagged panic (M4a)"]


def run(tier, seed, scratch, t0):
    return sup.simple_check("C06", "vh-mpq", "c06", tier, seed, scratch, t0, "exploration", RULE, ASSUME,
                            nshards=16, case_timeout=120, min_cases=1000)


def replay(rp, scratch):
    return sup.generic_replay(rp, scratch, "vh-mpq")
