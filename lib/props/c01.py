"""C01 — MPQ build→open round trip (DESIGN.md §6 C01)."""
import sup

RULE = ("one case = one builder configuration (version x sector shift x compression x encryption x sector CRC x attributes x listfile x table compression) "
        "with a generated set of 6-10 files whose sizes straddle the sector size (0,1,3,5,S-1,S,S+1,3S+7,...) over 8 content classes; quick = pairwise-complete "
        "covering array + 60 random points, thorough = 3-wise covering array + 2000 random points. Oracle: in-memory (name, bytes) model; every file read under 5 "
        "spellings, sizes, list() set equality, never-added names incl. table-offset and HET-8-bit colliders. distinct = distinct configuration tuples whose build "
        "succeeded and was read back; a configuration whose build returns Err is counted (build_err) but is trivial.")
ASSUME = ["names avoid listfile syntax (no CR/LF/';', no leading/trailing blanks)", "ADPCM selectors are lossy by statement: length only",
          "the 'unit-ratio>1000' trigger predicate is evaluated with the repo's own compress(); it only partitions cases for known findings, it is not an oracle"]


def run(tier, seed, scratch, t0):
    return sup.simple_check("C01", "vh-mpq", "c01", tier, seed, scratch, t0, "exploration", RULE, ASSUME,
                            nshards=16, case_timeout=180, min_cases=60)


def replay(rp, scratch):
    return sup.generic_replay(rp, scratch, "vh-mpq")
