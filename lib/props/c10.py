"""C10 — corruption of protected data is detected; intact data always verifies (DESIGN.md §6 C10)."""
import sup

RULE = ("fault enumeration over byte alterations of builder-written archives. One case = (archive configuration, metadata kind, file shape single/3-sector/9-sector, "
        "region kind, corruption kind); inside a case every enumerated offset of the region is altered in a copy of the archive, the verifier the statement names for that "
        "kind is run (sector/unit checksums: Archive::read_file; CRC32/MD5 attributes: SFileVerifyFile of the included C API + read_file, with every flag selection driven as a case "
        "of its own: FILE_CRC|FILE_MD5, FILE_CRC alone, FILE_MD5 alone (only where the archive carries MD5s), 0 = everything available; version-4 "
        "digests: Archive::open + get_info().md5_status relative to the intact archive's status; weak signature: Archive::verify_signature on an archive signed with "
        "generate_weak_signature) and the affected files are read: detected | harmless (content bit-identical) | undetected-and-different = violation; an intact archive that "
        "fails its verifier = violation. Regions: file data, sector offset table, sector CRC table, unit CRC, attributes file (header / crc32 / filetime / md5 arrays), "
        "V4 header 0..192, header digest, hash / block / HET+BET tables, signature, everything the signature covers. Corruption kinds: quick ^0x01 at every offset of tables "
        "and every 7th (37th in 4 KiB-sector archives) offset of file data with a seed-dependent phase; thorough every offset x {^0x01, ^0x80, =0, =0xFF, 2-byte burst}. "
        "Multi-region alterations: stored checksum zeroed + data byte altered; all V4 digests zeroed + table byte altered; data byte altered + CRC32 (or MD5) attribute "
        "rewritten to match (the other attribute must object); attribute entries zeroed + data byte altered. Archive layouts: the archive starts the file, or (every metadata kind, fewer configurations) sits behind 512..2048 bytes of foreign data so that every verifier has to add the archive offset (signatures of cases behind a prefix end in |archive-offset>0, except the known multi-sector findings, which do not depend on it). Signature functions: 200 (thorough 600) byte strings 0..200 KiB "
        "(lengths around the 64 KiB digest unit), signature area outside and inside the data, signed with generate_weak_signature, verified with both verify functions, all 512 "
        "signature bits and ~1000 data bits (targeted at unit / exclusion boundaries + random) flipped. distinct = distinct (archive configuration, kind, file shape, region, "
        "corruption kind) classes with at least one altered offset executed (+ signature-string length classes). "
        "Further axes (fewer configurations each): sectors compressed with bzip2 / LZMA / sparse and fix-key encryption under checksums and attributes; sector checksums without an "
        "(attributes) file (generate_crcs(true), then AttributesOption::None); V4 digests over HET/BET tables compressed with table_compression(bzip2 | LZMA); signed archives followed "
        "by a block that begins with NGIS + 256 bytes (the strong-signature arm of verify_signature), intact and with one signed byte altered; integrity metadata NOT written by "
        "ArchiveBuilder: a file added through MutableArchive::add_file_data + flush, or everything added through SFileCreateArchive2 + SFileAddFileEx + SFileFlushArchive (V1/V2): every "
        "file of the unmodified result must verify under every flag selection and the archive-wide verifier (C-API route: also on the handle that wrote it), the stored bytes of the added file are swept.")
ASSUME = ["the region map (where to corrupt) comes from the library's own header/find_file answers and the builder's layout; it is checked to tile the archive and is never the oracle",
          "a caught panic or a process abort (allocation failure, panic inside extern \"C\") while handling a corrupted archive is tallied as crash_on_corruption / abort_on_corruption "
          "and is not a C10 violation: the corruption did not pass silently, totality is C05's clause; on the intact archive it is intact-fails",
          "probes of size-bearing regions run in a forked child under a 1 GiB address-space limit; a probe in which the reader asks for more is tallied abort_on_corruption|oversized-request",
          "the 8 bytes in front of the 64 signature bytes in (signature) are neither hashed nor part of the signature: altering them is tallied, not judged",
          "a V4 digest that is already invalid on the intact archive (known finding) cannot report anything: detection is judged on the digests that were valid",
          "verify_weak_signature (legacy) hashes the first archive_size bytes as they are, so it is compared only when the signature area lies outside the data",
          "a flag selection is only judged on archives that carry the attribute it names: FILE_MD5 alone on a CRC32-only archive has nothing to compare; SECTOR_CRC alone is not driven through the "
          "C API (the statement's verifier for sector checksums is read_file, judged by the vh-mpq worker)",
          "an archive behind a prefix is the prefix-free build with foreign bytes put in front (all stored offsets are relative to the archive start); the prefix bytes themselves are not protected and are not altered",
          "SFileVerifyArchive(ALL_FILES) is driven as a verifier of its own (flag selection 'SFileVerifyArchive(ALL_FILES)') since its self-deadlock was repaired (79e1b4e); user files of every other "
          "unsigned configuration carry names that only look like special files ('(old) notes.txt', 'maps\\arena (copy)'); archives with attributes hold a zero-length file whose attributes must verify",
          "a signed archive followed by foreign bytes in the same file (short tail, padding to a 4096 multiple) is the unmodified archive: it must verify",
          "a block beginning with NGIS + 256 bytes behind the archive is, by the format, an attached strong signature nobody made: verify_signature may answer WeakValid (foreign bytes) or refuse in "
          "the name of the strong signature (StrongInvalid / StrongNoKey); StrongValid, WeakInvalid, None or an error are violations; with one signed byte altered nothing may answer *Valid. No valid "
          "strong signature can be produced (no private key): the accepting branch of the strong arm is not reachable from this check",
          "modification legs stay on V1/V2 and add + flush; archives in which the grown block table would not fit into the slack before the appended data are skipped (C06's block-table finding); "
          "files added by the modification path are single units without sector checksum: their protection is the CRC32/MD5 attribute, verifier SFileVerifyFile / SFileVerifyArchive",
          "when the unmodified archive after a modification is refused only for files the modification did not touch, the sweep over the added file is still run with the per-file verifier"]


def run(tier, seed, scratch, t0):
    b1 = sup.build("vh-mpq", "c10")
    b2 = sup.build("vh-ffi", "c10_ffi")
    res = sup.Result("C10")
    sup.run_workers(res, b1, [], tier, seed, scratch, nshards=16, case_timeout=600, label="m")
    sup.run_workers(res, b2, [], tier, seed, scratch, nshards=16, case_timeout=600, label="f")
    return sup.finish(res, tier, seed, "fault_enumeration", RULE, t0, assumptions=ASSUME, min_cases=300)


def replay(rp, scratch):
    pkg = "vh-ffi" if rp["replay"]["bin"] == "c10_ffi" else "vh-mpq"
    return sup.generic_replay(rp, scratch, pkg)
