"""C02 — archives interoperate with an independent implementation (DESIGN.md §6 C02).

Direction A (Rust -> ref): worker c02 --mode write builds archives over the published-format subset; lib/refmpq.py
parses header/tables with its own keys, hashes and probing, extracts every file and compares.
Direction B (ref -> Rust): lib/refmpq.py writes archives (its own layout decisions); worker c02 --mode read opens
them with wow_mpq::Archive and compares every name.
"""
import glob
import hashlib
import json
import os
import random
import struct
import sys
from concurrent.futures import ProcessPoolExecutor

import refmpq
import sup

RULE = ("direction A: full product of the published-format subset (V1/V2 x sector shift {0,1,3,5} (+ shift 10 with units of 270-470 KiB under encryption) x {none,zlib,bzip2} x {plain,encrypted,encrypted+fix-key} x listfile on/off, "
        "x file-set repetitions in thorough) built by ArchiveBuilder with sector-straddling file sets plus odd-length incompressible files, files at the compressor's break-even length and a path-less name; every archive is "
        "parsed and fully extracted by the independent reference reader and 9 header fields are compared. direction B: the reference writer emits archives over the same subset "
        "(+ hash table sizes 4..64 with deleted markers in probe chains, optional junk/user-data prefix, single-unit option, zlib streams with default / StormLib unit-sized window / varied level+window, bzip2 levels) which Archive reads back under several spellings. "
        "round 8: every product point is built a second time with sector checksums / an (attributes) file on (five combinations of generate_crcs and the attributes option): the reference reads flagged multi-sector files under the published checksum layout "
        "(private layout = named deviation model) and extracts (attributes) to the bytes the library reads; half of each file set enters the builder from disk (add_file, add_file_with_options, add_file_with_encryption), "
        "add_file_data covers the default-compression entry point. direction B: checksum sectors also on encrypted files (encrypted as sector nsec); each archive is opened a second time with OpenOptions.load_tables(false) + load_tables() (reads must agree), "
        "list_all / list_all_with_hashes must return one entry per stored file with the block-table fields and name hashes the reference wrote, list_with_hashes the reference's hashes for the listed names, find_file the slot and block the reference placed the name in, "
        "read_file_by_indices (unencrypted archives) what read_file returns. "
        "distinct = distinct (direction, configuration class) pairs compared.")
ASSUME = ["trusted base: lib/refmpq.py, an independent reading of the public MPQ format (The MoPaQ Archive Format / Zezula) — not StormLib itself",
          "subset: V1/V2, classic tables, none/zlib/bzip2; sector checksums and (attributes) on in half of the builder archives; what the arrays inside (attributes) hold is C10's subject",
          "sector checksums as published: one more offset-table entry, checksum sector behind the data and inside the stored size, ADLER32 of each sector as stored, encrypted as sector number nsec; on single-unit files the flag carries no layout",
          "format rules the reference applies: file key from the name without directory path; encryption covers whole dwords only (trailing len%4 bytes stay plain); "
          "uncompressed multi-sector files have no sector offset table and are encrypted per sector"]


def _sha(b):
    return hashlib.sha256(b).hexdigest()


def _stored_tail_class(ref, name):
    lay = ref.file_layout(name)
    if not lay:
        return "?"
    bi, pos, csize, fsize, flags, key = lay
    return f"{'single' if flags & refmpq.FLAG_SINGLE_UNIT else 'sectored'}|{'comp' if flags & refmpq.FLAG_COMPRESS else 'raw'}"


def compare_one(man_path):
    """Direction A: returns a list of (sig, what, detail) and counters."""
    out, cnt = [], {"a_archives": 0, "a_files": 0, "a_header_fields": 0}
    man = json.load(open(man_path))
    data = open(man["archive"], "rb").read()
    enc = man["enc"]
    mname = man["cfg"]["method"]
    try:
        ref = refmpq.RefArchive(data)
    except Exception as ex:  # noqa
        return [(f"A|ref-cannot-open|v{man['cfg']['version']}", f"reference reader cannot open a builder-written archive: {ex}", man["cfg"])], cnt, man
    cnt["a_archives"] = 1
    h = man["header"]
    if "open_err" not in h:
        pairs = [("header_size", ref.header_size), ("archive_size", ref.archive_size32), ("version", ref.version), ("shift", ref.shift),
                 ("hash_pos", ref.hash_pos), ("block_pos", ref.block_pos), ("hash_size", ref.hash_size), ("block_size", ref.block_size),
                 ("archive_offset", ref.archive_offset)]
        for k, v in pairs:
            cnt["a_header_fields"] += 1
            if h.get(k) != v:
                out.append((f"A|header-field-disagrees|{k}", f"header field {k}: library says {h.get(k)}, reference parse says {v}", man["cfg"]))
        if ref.archive_size32 != len(data) - ref.archive_offset and man["cfg"]["version"] == 1:
            out.append(("A|header-archive-size-ne-file", f"V1 header archive_size {ref.archive_size32} != bytes on disk {len(data) - ref.archive_offset}", man["cfg"]))
    for f in man["files"]:
        want = open(f["content"], "rb").read()
        name = f["name"]
        cnt["a_files"] += 1
        shape = _stored_tail_class(ref, name)
        if ref.find(name) is None:
            out.append((f"A|ref-name-not-found|enc{enc}", f"reference lookup (own hash + probing) does not find {name!r}", man["cfg"]))
            continue
        # hash-entry fields: language id in the locale field, platform 0
        ents = ref.hash_entries(name)
        cnt["a_hash_entries"] = cnt.get("a_hash_entries", 0) + len(ents)
        want_loc = f.get("locale", 0)
        if not any(loc == want_loc and plat == 0 for loc, plat, _ in ents):
            out.append((f"A|hash-entry-fields|locale={'neutral' if want_loc == 0 else 'language'}", f"hash entry of {name!r}: (locale, platform) = {[(hex(l), hex(p)) for l, p, _ in ents]}, added with locale {want_loc:#x}",
                        {"cfg": man["cfg"], "file": name, "locale": want_loc}))
        # the format as published first; then the named deviations, only to *diagnose* what a mismatch is made of.
        # Compressed multi-sector files flagged SECTOR_CRC are read under the published checksum layout, strictly (one more
        # offset-table entry, checksum sector behind the data and inside the stored size, ADLER32 of each sector as stored);
        # the private layout (checksums between offset table and data, outside the stored size) is a named deviation model.
        lay = ref.file_layout(name)
        lflags = lay[4] if lay else 0
        crc_file = bool(lflags & refmpq.FLAG_SECTOR_CRC)
        crc_sectored = crc_file and bool(lflags & refmpq.FLAG_COMPRESS) and not lflags & refmpq.FLAG_SINGLE_UNIT
        if crc_file:
            k = "a_files_flagged_sector_crc|" + ("sectored" if crc_sectored else "single-unit-or-raw (flag carries no layout)")
            cnt[k] = cnt.get(k, 0) + 1
        key_attempts = [((True, "plain"), None), ((True, "padded-dword"), "tail-encrypted"), ((False, "plain"), "fullpath-key"), ((False, "padded-dword"), "fullpath-key+tail-encrypted")]
        if not enc:
            key_attempts = key_attempts[:1]
        crc_models = [("published", None), ("private-front", "sector-crc-private-layout")] if crc_sectored else [(None, None)]
        attempts = [(ka, kl, cm, cl) for cm, cl in crc_models for ka, kl in key_attempts]
        verdict, first_err = "none", None
        for (plain, tail), klabel, cmodel, clabel in attempts:
            label = "+".join(x for x in (klabel, clabel) if x) or None
            try:
                got = ref.read(name, use_plain_name=plain, tail=tail, crc_model=cmodel)
            except Exception as ex:  # noqa
                if first_err is None:
                    first_err = f"error: {ex}"
                continue
            if got == want:
                verdict = label or "conformant"
                break
            if first_err is None:
                fd = next((i for i in range(min(len(want), len(got))) if got[i] != want[i]), min(len(want), len(got)))
                first_err = f"{len(got)} bytes vs {len(want)} expected, first difference at {fd}"
        if verdict == "conformant":
            cnt["a_files_conformant"] = cnt.get("a_files_conformant", 0) + 1
            if crc_sectored:
                cnt["a_sector_crc_files_conformant"] = cnt.get("a_sector_crc_files_conformant", 0) + 1
        elif verdict != "none":
            out.append((f"A|needs-deviation|{verdict}", f"{name!r} (len {f['len']}, {shape}) extracts correctly only if the reference deviates from the published format by: {verdict} (under the format: {first_err})",
                        {"cfg": man["cfg"], "file": f["name"], "len": f["len"]}))
        else:
            out.append((f"A|ref-mismatch|{mname}|enc{enc}|{shape}" + ("|sector-crc" if crc_sectored else ""), f"reference extraction of {name!r} (len {f['len']}) fails under the format and under every known deviation: {first_err}",
                        {"cfg": man["cfg"], "file": f["name"], "len": f["len"]}))
    # the (attributes) file is a file of the archive like any other: the reference finds and extracts it, and gets the bytes the
    # library itself reads (what the arrays inside must hold is C10's subject, not judged here)
    if man.get("has_attributes"):
        cnt["a_attributes_files"] = cnt.get("a_attributes_files", 0) + 1
        a = man.get("attributes") or {}
        try:
            got = ref.read("(attributes)")
        except KeyError:
            got = None
            out.append(("A|ref-attributes-not-found", "reference lookup does not find (attributes) in an archive built with an attributes option", man["cfg"]))
        except Exception as ex:  # noqa
            got = None
            out.append(("A|ref-attributes-unreadable", f"reference reader cannot extract (attributes): {ex}", man["cfg"]))
        if got is not None:
            if "content" in a:
                cnt["a_attributes_compared"] = cnt.get("a_attributes_compared", 0) + 1
                if open(a["content"], "rb").read() != got:
                    out.append(("A|ref-attributes-differ-from-library-read", f"(attributes) as extracted by the reference ({len(got)} bytes) differs from what Archive::read_file returns", man["cfg"]))
            else:
                out.append(("A|library-cannot-read-own-attributes", f"Archive::read_file(\"(attributes)\") fails on the builder's own archive: {a.get('err')}", man["cfg"]))
    if man["listfile"]:
        try:
            lf = ref.listfile()
            names = set(n.upper() for n in (lf or []))
            for f in man["files"]:
                if f["name"].upper() not in names:
                    out.append(("A|ref-listfile-missing-name", f"(listfile) as extracted by the reference lacks {f['name']!r}", man["cfg"]))
                    break
        except Exception as ex:  # noqa
            out.append((f"A|ref-listfile-error|{mname}", f"reference reader cannot extract (listfile): {ex}", man["cfg"]))
    return out, cnt, man


CLASSES = ["random", "zero", "text", "half"]


def _content(rng, cls, n):
    if cls == "random":
        return bytes(rng.getrandbits(8) for _ in range(n))
    if cls == "zero":
        # mostly zeros with a literal every ~40 bytes: compressible, but far below the 1000:1 ratio at which the
        # library's bomb heuristics start refusing data (that limit is C03's subject, not an interoperability matter)
        out = bytearray(n)
        i = rng.randrange(40) if n else 0
        while i < n:
            out[i] = rng.randrange(1, 256)
            i += 1 + rng.randrange(80)
        return bytes(out)
    if cls == "text":
        w = [b"the ", b"quick ", b"Interface\\", b"Glue", b".blp\r\n", b"0123456789"]
        out = bytearray()
        while len(out) < n:
            out += rng.choice(w)
        return bytes(out[:n])
    return b"A" * (n // 2) + bytes(rng.getrandbits(8) for _ in range(n - n // 2))


def gen_ref_archive(args):
    """Direction B: one reference-written archive + manifest."""
    k, seed, outdir = args
    rng = random.Random(seed * 1000003 + k)
    version = 1 + (k % 2)
    shift = [0, 1, 3, 5][(k // 2) % 4]
    method = [0, 0x02, 0x10][(k // 8) % 3]
    encm = (k // 24) % 3
    single = (k // 72) % 2 == 1
    prefix = [0, 0x200, 0x400][(k // 144) % 3] if k >= 144 else [0, 0, 0x200][k % 3]
    user_data = prefix != 0 and rng.random() < 0.5
    deleted = rng.choice([0, 0, 2, 5])
    listfile = rng.random() < 0.8
    ss = 512 << shift
    sizes = [0, 1, 3, 5, ss - 1, ss, ss + 1, 3 * ss + 7, ss + 2, ss + 3, 6, 7, 2 * ss, ss + 4, 3 * ss + 8, 4, 8]
    files, mf = [], []
    zstats = {}
    for i, n in enumerate(sizes):
        cls = CLASSES[(i + k) % len(CLASSES)] if i < 12 else "random"
        data = _content(rng, cls, n)
        comp = (rng.choice(["Dir", "World\\Maps", "a", "Interface\\Glue\\XML"]) if i % 3 else "") if i < 12 else ("" if i % 2 == 0 else "Dir")
        name = (comp + "\\" if comp else "") + f"File{k}_{i}.{rng.choice(['blp', 'M2', 'txt'])}"
        # stream parameters other writers use: StormLib sizes the deflate window after the unit (header 0x48..0x68, not 0x78);
        # other levels change the FLEVEL bits / the bzip2 block-size digit
        zp = [None, ("stormlib",), (rng.choice([1, 9]), rng.choice([9, 10, 12, 14, 15]))][(i + k // 3) % 3]
        zstats[str(zp)] = zstats.get(str(zp), 0) + 1
        # sector checksums in the published layout (offset table with one more entry, checksum sector behind the data) on
        # compressed multi-sector files of plain archives; a language id on a few entries (lookups with the neutral locale find them)
        # (encrypted archives too: the checksum sector is then encrypted like a sector, with key + number of sectors)
        crc = method != 0 and not single and n > ss and i % 2 == 1
        loc = [0, 0, 0, 0x409, 0x407][(i + k) % 5] if i >= 4 else 0
        files.append(refmpq.RefFile(name, data, method, encm > 0, encm == 2, single and n > 0, zparams=zp, sector_crc=crc, locale=loc, crc_when_encrypted=True))
        p = os.path.join(outdir, f"b-{k}.f{i}")
        with open(p, "wb") as fh:
            fh.write(data)
        fclass = "FILL"
        mf.append({"name": name, "content": p, "len": n, "fclass": fclass, "haspath": bool(comp), "multi": n > ss and not (single and n > 0), "sector_crc": crc, "locale": loc, "bi": i, "single_unit": bool(single and n > 0)})
    # every sixth archive: one encrypted single-unit file longer than 256 KiB (64 Ki dwords under one key stream)
    if k % 6 == 1 and encm > 0:
        n = 270000 + rng.randrange(150000)
        data = _content(rng, "random", n)
        name = f"Big\\Unit{k}.bin"
        i = len(files)
        files.append(refmpq.RefFile(name, data, method, True, encm == 2, True))
        p = os.path.join(outdir, f"b-{k}.f{i}")
        with open(p, "wb") as fh:
            fh.write(data)
        mf.append({"name": name, "content": p, "len": n, "fclass": "FILL", "haspath": True, "multi": False, "sector_crc": False, "locale": 0, "bi": i, "single_unit": True})
    # every seventh archive: a hash table without a free slot (1, 2, 4, 8 or 16 entries in as many slots): the format ends a
    # lookup when the probe returns to where it started, and the last name placed may sit anywhere in the table (after C02-r7m3)
    full = k % 7 == 3
    if full:
        target = [1, 2, 4, 8, 16][(k // 7) % 5]
        if target == 1 and listfile and rng.random() < 0.5:
            listfile = False
        keep = max(target - (1 if listfile else 0), 0)
        files, mf = files[:keep], mf[:keep]
        deleted = 0
    n_entries = len(files) + (1 if listfile else 0)
    hs = 4 if not full else 1
    while hs < n_entries + deleted + (0 if full else 1):
        hs *= 2
    if not full and rng.random() < 0.3:
        hs *= 2
    # where the two tables stand: the header carries both positions, a writer is free to put either first, behind or in front
    # of the file data
    layout = ["end-hash-first", "end-block-first", "front-hash-first", "front-block-first", "end-hash-first"][(k + k // 5) % 5]
    arc, info = refmpq.write_archive(files, version=version, shift=shift, hash_size=hs, prefix=prefix, user_data=user_data,
                                     deleted_probes=deleted, listfile=listfile, listfile_method=method or 0x02, table_layout=layout)
    # trigger predicates per file (signatures are built from these, DESIGN.md §4): does the key depend on the directory
    # part; does some encrypted stored unit have a length not divisible by 4; is it a multi-sector file stored without
    # compression (no sector table, per-sector keys)
    for i, m in enumerate(mf):
        ul = info["unit_lens"][i]
        expected = [min(ss, m["len"] - j * ss) for j in range(len(ul))] if m["multi"] else [m["len"]]
        m["stored_raw"] = (m["len"] == 0) or all(u == e for u, e in zip(ul, expected))
        m["fclass"] = "keypath=%d|tail=%d|sectored-raw=%d" % (int(encm > 0 and m["haspath"]), int(encm > 0 and any(u % 4 for u in ul)),
                                                            int(m["multi"] and method == 0))
    # the block table as written, with the name hashes and the hash-table slot of each entry (for the enumeration entry points)
    rows = [{"name": info["names"][bi], "fsize": b[2], "csize": b[1], "flags": b[3], "slot": info["slots"][bi],
             "hash_a": refmpq.hash_string(info["names"][bi], refmpq.HASH_A), "hash_b": refmpq.hash_string(info["names"][bi], refmpq.HASH_B)} for bi, b in enumerate(info["blocks"])]
    ncrc_enc = sum(1 for m in mf if m["sector_crc"] and encm > 0)
    ap = os.path.join(outdir, f"b-{k}.mpq")
    with open(ap, "wb") as fh:
        fh.write(arc)
    shape = f"v{version}|prefix{'-userdata' if user_data else ('-junk' if prefix else '-none')}"
    opts = {"version": version, "shift": shift, "method": method, "enc": encm, "single_unit": single, "prefix": prefix, "user_data": user_data,
            "deleted_probes": info["deleted_planted"], "hash_size": hs, "listfile": listfile, "zparams": zstats, "table_layout": layout}
    man = {"idx": k, "class": f"B|v{version}|s{shift}|m{method}|e{encm}|su{int(single)}|p{prefix}|ud{int(user_data)}|t-{layout}", "archive": ap, "files": mf, "opts": opts, "shape": shape, "blocks": rows}
    with open(os.path.join(outdir, f"b-{k}.json"), "w") as fh:
        json.dump(man, fh)
    return k, (zstats if method == 0x02 else {}), {"b_files_with_sector_crc|encrypted": ncrc_enc, "b_files_with_sector_crc|plain": sum(1 for m in mf if m["sector_crc"] and encm == 0)}


def run(tier, seed, scratch, t0):
    binpath = sup.build("vh-mpq", "c02")
    res = sup.Result("C02")
    # ---- direction A
    adir = os.path.join(scratch, "A")
    os.makedirs(adir)
    sup.run_workers(res, binpath, ["--mode", "write", "--dir", adir], tier, seed, scratch, nshards=16, case_timeout=120, label="A")
    mans = sorted(glob.glob(os.path.join(adir, "a-*.json")))
    a_classes = set()
    with ProcessPoolExecutor(max_workers=sup.NCPU) as ex:
        for out, cnt, man in ex.map(compare_one, mans, chunksize=4):
            for k, v in cnt.items():
                res.add_counter(k, v)
            a_classes.add("A|" + man["class"])
            for sig, what, detail in out:
                rp = {"property": "C02", "tier": tier, "seed": seed, "bin": "c02", "direction": "A", "only": man["idx"], "cfg": man["cfg"]}
                res.add_violation(sig, what, detail, rp)
    # the write-mode worker counted its cases as "held": the comparison verdicts come from the reference side
    res.classes = set(c for c in res.classes) | a_classes
    # ---- direction B
    bdir = os.path.join(scratch, "B")
    os.makedirs(bdir)
    nb = 1500 if tier == "thorough" else 300
    with ProcessPoolExecutor(max_workers=sup.NCPU) as ex:
        for _k, zs, extra in ex.map(gen_ref_archive, [(k, seed, bdir) for k in range(nb)], chunksize=8):
            for name, v in extra.items():
                res.add_counter(name, v)
            for name, v in zs.items():
                res.add_counter("b_zlib_files_with_stream_params|" + ("default" if name == "None" else "stormlib-window" if "stormlib" in name else "level-and-window-varied"), v)
    res.add_counter("b_archives_written_by_reference", nb)
    sup.run_workers(res, binpath, ["--mode", "read", "--dir", bdir], tier, seed, scratch, nshards=16, case_timeout=120, label="B")
    return sup.finish(res, tier, seed, "exploration", RULE, t0, assumptions=ASSUME, min_cases=100)


def replay(rp, scratch):
    """Re-runs the whole (small) sweep of the recorded tier/seed and reports whether the signature re-occurs."""
    r = rp["replay"]
    os.environ["VERIF_SEED"] = str(r["seed"])
    import time
    rc = run(r["tier"], r["seed"], scratch, time.time())
    return rc
