"""C11 — `warcraft-rs mpq extract` never creates or modifies anything outside the requested output directory
(DESIGN.md §6 C11, §3 M5).

Everything is driven from here; there is no Rust worker.  One case = one run of the real CLI binary on an archive written by
lib/refmpq.py (hostile names planted verbatim in the hash table and in the (listfile) text), inside a private sandbox tree.

Two independent observers judge every run:

  (1) snapshot: (type, mode, size, mtime_ns, sha256) of every object of the run's *outer* tree before and after; any object
      created / modified / removed outside `out/` is a violation;
  (2) strace (-ff -y, ptrace level, follows every thread and child): every call that creates, opens for writing, makes a directory,
      renames, links, unlinks, truncates or chmods a path that does not resolve (lexically and through realpath, relative to the
      traced cwd / dirfd) to `out/` or below is a violation even if it failed (weaker clause `attempted-write-outside`).

Containment of the check itself: the tool runs as whoever runs the check (root here), so no generated name may be able to leave
/verif/scratch even when the tool honours it literally.  Every name passes `contained()` before it is written into an archive:
at most MAXUP `..` components, and a root-anchored name (leading `/`, `\\`, `//`, `\\\\` — the latter is the UNC shape
`\\\\server\\share\\…` with server=`verif`, share=`scratch`) always continues with the absolute path of the run's own `abs/`
directory.  The sandbox root sits MAXUP+1 directory levels below the run's outer directory, so a maximal climb still ends inside
the outer directory, which is snapshotted whole.
"""
import hashlib
import json
import os
import random
import re
import shutil
import stat
import subprocess
import time
from concurrent.futures import ThreadPoolExecutor

import refmpq
import sup

PROP = "C11"
MAXUP = 6                       # longest run of `..` any generated name may contain
LEVELS = ["u%d" % i for i in range(1, MAXUP + 1)]

TRACE = ["open", "openat", "openat2", "creat", "mkdir", "mkdirat", "rmdir", "rename", "renameat", "renameat2", "link", "linkat",
         "symlink", "symlinkat", "unlink", "unlinkat", "truncate", "ftruncate", "chmod", "fchmod", "fchmodat", "chown", "lchown",
         "fchown", "fchownat", "mknod", "mknodat", "utimensat", "chdir", "fchdir"]
WRITE_FLAGS = ("O_CREAT", "O_WRONLY", "O_RDWR", "O_TRUNC", "O_APPEND", "O_TMPFILE")
EXEMPT_EXACT = {"/dev/null", "/dev/tty"}
EXEMPT_PREFIX = ("/proc/self/",)

LONG = "L" * 300
UNI = "\u00fcn\u00ef\u20acode\u2713"
# "....\\" / "..../": four dots + a separator of their own (joined with the style's separator this gives `....\\\\` — what a
# single, non-recursive pass that deletes `../` turns into a fresh `../`)
COMPONENTS = ["..", ".", "", "a", LONG, UNI, "C:", "CON", "...", ".. ", "sibling", "out-evil", "abs", "home", "....", "....\\", "..../"]
SEPSTYLES = ["bs", "fs", "mixed", "dbs", "dfs"]
PREFIXES = ["none", "abs-fs", "abs-bs", "abs-mixed", "unc-bs", "unc-fs", "drive-bs", "drive-fs", "drive-rel", "drive-abs", "drive-abs-dbs", "drive-abs-dfs", "drive-abs-fs"]

RULE = ("one case = one run of the CLI (`mpq extract`) under strace on an archive written by the independent writer lib/refmpq.py: 3 (quick) / 5 (thorough) hostile entry names "
        "(hashed verbatim, listed verbatim in (listfile)) + 4 benign names whose bytes are checked after the run. Names: an enumerated core (every separator style x `..` depth 1-6, "
        "mid-path `..`, sibling/canary targets, absolute path of the sandbox's abs/ dir spelled with /, \\, mixed, UNC-shaped \\\\verif\\scratch\\.. and //.., drive prefixes C:\\ C:/ C: , "
        "`...`, `.. `, `.`, doubled separators, CON, 300-char and unicode components, trailing `..` / `.` / separator; every prefix class again behind 1-2 leading `.` components whose separator is single, "
        "doubled or of the other kind, e.g. `.//<abs>/x`, `.\\\\<abs>\\x`) + seeded random names from the grammar components x separators x prefixes, "
        "depth 1-6, 0-2 leading `.` components, up to 320 (quick) / 3000 (thorough) names. Each archive is run under every configuration of {--preserve-paths on/off} x {no patch chain: whole archive / names on the "
        "command line x --threads 1/4 ; patch chain (--patch second archive overriding hostile and benign names and adding its own): whole / explicit}; output dir spelled relative or absolute, "
        "--skip-errors on/off, archive version 1/2 and zlib/none per file drawn from the seed. Oracle: snapshot diff of the whole outer tree + strace write-class calls resolved against the traced cwd; "
        "both must agree. A run is non-trivial iff the tool ran to an exit status and the leading benign files were found byte-identical in out/; distinct = distinct "
        "(prefix kind, `..` depth, separator style, preserve, chain) among the hostile names of non-trivial runs.")
ASSUME = [
    "platform: Linux; on this platform `\\` is an ordinary file-name byte and `C:` an ordinary component, so drive-prefix names are exercised but can only escape through `..`",
    "the tool is not run with hostile names that would resolve outside /verif/scratch if honoured: root-anchored names (/x, \\x, \\\\server\\share\\x) are always anchored at the absolute path of the "
    "run's own abs/ directory (UNC shape: server=verif, share=scratch), and `..` runs are capped at 6 with the sandbox nested 7 levels below the snapshotted outer directory",
    "a failed mkdir(EEXIST) of the output directory itself or of one of its ancestors is what creating the output directory needs (mkdir -p) and is not counted as an attempt to write outside",
    "opening the output directory itself for writing (name with empty final component; always EISDIR) is counted as inside",
    "pre-existing symlinks inside the output directory are outside the statement (an MPQ archive cannot create one) and are not planted",
    "the tool prints no per-file or total count when stdout is not a terminal, so 'files extracted' is measured as regular files found under out/ after the run",
    "strace 6.1 -ff -y: one log per thread, dirfd and returned fd annotated with their paths; a log line that cannot be parsed or a truncated string makes the run inconclusive",
]


# ------------------------------------------------------------------------------------------------ name grammar

def realize(spec, absdir):
    """spec -> entry name (str).  absdir = absolute path of the run's abs/ directory."""
    style = spec["sep"]
    comps = list(spec["comps"])
    pat = spec.get("pat", 0)

    def sep(i):
        if style == "bs":
            return "\\"
        if style == "fs":
            return "/"
        if style == "dbs":
            return "\\\\"
        if style == "dfs":
            return "//"
        return "\\" if ((pat >> (i % 16)) & 1) == 0 else "/"      # mixed

    body = ""
    for i, c in enumerate(comps):
        if i:
            body += sep(i - 1)
        body += c
    p = spec["prefix"]
    ab = absdir.lstrip("/")
    if p == "none":
        pre = ""
    elif p == "abs-fs":
        pre = "/" + ab + "/"
    elif p == "abs-bs":
        pre = "\\" + ab.replace("/", "\\") + "\\"
    elif p == "abs-mixed":
        # begins with a backslash so that the name is root-anchored only after separator conversion (see contained())
        parts = ab.split("/")
        pre = "\\" + "".join(x + ("/" if j % 2 == 0 else "\\") for j, x in enumerate(parts))
    elif p == "unc-bs":
        pre = "\\\\" + ab.replace("/", "\\") + "\\"
    elif p == "unc-fs":
        pre = "//" + ab + "/"
    elif p == "drive-bs":
        pre = "C:\\"
    elif p == "drive-fs":
        pre = "C:/"
    elif p == "drive-rel":
        pre = "C:"
    elif p == "drive-abs":
        pre = "C:\\" + ab.replace("/", "\\") + "\\"
    elif p == "drive-abs-dbs":
        # what is left once `C:` and ONE separator are taken away is root-anchored (after C11-r8m1)
        pre = "C:\\\\" + ab.replace("/", "\\") + "\\"
    elif p == "drive-abs-dfs":
        pre = "C://" + ab + "/"
    elif p == "drive-abs-fs":
        pre = "C:/" + ab + "/"
    else:
        raise ValueError(p)
    # 0-2 leading `.` components, each followed by its own separator (single, doubled or mixed), in front of whatever the prefix is:
    # `.` + `/` + `/abs/path` is "current directory, empty component, absolute continuation"
    lead = "".join("." + spec.get("lsep", "\\") for _ in range(spec.get("lead", 0)))
    return lead + pre + body


def sys_form(name):
    return name.replace("\\", "/")


def split_comps(name):
    return re.split(r"[\\/]", name)


def name_class(name):
    """Semantic class of a name for signatures: which feature makes it leave the output directory on this platform."""
    m = re.match(r"^(?:\.[\\/])+(?=[\\/])", name)
    if m:
        # `.` component(s), then an empty component: what follows is root-anchored once the leading `./` is dropped
        return "curdir+" + name_class(name[m.end():])
    if re.match(r"^[\\/]{2}", name):
        return "unc"
    if name.startswith("\\"):
        return "absolute-backslash"
    if name.startswith("/"):
        return "absolute-slash"
    if ".." in split_comps(name):
        bs, fs = "\\" in name, "/" in name
        return "dotdot-mixed" if (bs and fs) else "dotdot-backslash" if bs else "dotdot-slash" if fs else "dotdot-bare"
    if re.match(r"^[A-Za-z]:", name):
        return "drive"
    return "plain"


def up_depth(name):
    """How far above its anchor the system form climbs at most (0 = never leaves)."""
    d, worst = 0, 0
    for c in sys_form(name).split("/"):
        if c in ("", "."):
            continue
        if c == "..":
            d -= 1
            worst = min(worst, d)
        else:
            d += 1
    return -worst


def _collapse(p):
    p = os.path.normpath(p)
    return re.sub(r"^/+", "/", p)


def under(p, root):
    return p == root or p.startswith(root.rstrip("/") + "/")


def contained(name, box):
    """Safety gate: could this name, honoured in any of the plausible ways (separators converted as the tool does; taken raw with `\\` as an
    ordinary byte; leading separators stripped; anchored at out/, cwd/, abs/ or the sandbox root), resolve outside the run's outer directory?"""
    if "\0" in name or "\n" in name or "\r" in name:
        return False
    if sum(1 for x in split_comps(name) if x in ("..", "....", "...")) > MAXUP:
        return False
    forms = set()
    base_forms = [sys_form(name), name]
    # a tool that "sanitises" instead of refusing: one or two non-recursive passes deleting `../` (or `..` + any run of separators),
    # with or without the leading separators / drive prefix gone first
    for f in list(base_forms):
        for g in (f, f.lstrip("/"), re.sub(r"^[A-Za-z]:", "", f).lstrip("/")):
            for one in (g.replace("../", ""), re.sub(r"\.\./+", "", g)):
                base_forms += [one, one.replace("../", ""), re.sub(r"\.\./+", "", one)]
    for f in list(base_forms):
        m = re.match(r"^[A-Za-z]:", f)
        if m:
            # a tool that drops the drive prefix together with ONE separator behind it (all of them: see lstrip above)
            rest = f[m.end():]
            base_forms.append(rest[1:] if rest[:1] in ("/", "\\") else rest)
    for f in base_forms:
        forms |= {f, f.lstrip("/")}
        g = f
        while g.startswith("./"):
            g = g[2:]                                    # a tool that drops a leading "./" (once or repeatedly) ...
            forms |= {g, g.lstrip("/")}
        forms.add(re.sub(r"^(?:\./+)+", "", f))          # ... or together with the separators that follow
        forms.add(re.sub(r"^(?:\.?/+)+", "", f))
    for f in forms:
        if f.startswith("/"):
            # root-anchored: must be spelled with this run's abs/ directory as its textual prefix, and stay inside the outer directory
            if not re.sub(r"^/+", "/", f).startswith(box["abs"] + "/"):
                return False
            if not under(_collapse(f), box["outer"]):
                return False
        else:
            for base in (box["out"], box["cwd"], box["abs"], box["sb"]):
                if not under(_collapse(base + "/" + f), box["outer"]):
                    return False
    return True


def listable(name):
    """Names the (listfile) text format can carry and the command line can pass unchanged."""
    if not name or name != name.strip():
        return False
    if ";" in name or name[0] in "#;-":
        return False
    return True


def fold_key(name):
    return bytes(refmpq.fold(b) for b in name.encode("utf-8"))


def core_specs():
    """The enumerated, seed-independent part of the name space."""
    S = []

    def add(prefix, comps, sep, pat=0b0101010101010101):
        S.append({"prefix": prefix, "comps": comps, "sep": sep, "pat": pat})
    for sep in SEPSTYLES:
        for k in range(1, MAXUP + 1):
            add("none", [".."] * k + ["@"], sep)
    for sep in ("bs", "fs", "mixed"):
        for k in (1, 2, 3):
            add("none", ["a"] + [".."] * (k + 1) + ["@"], sep)
        add("none", ["..", "sibling", "@"], sep)
        add("none", ["..", "out-evil", "@"], sep)
        add("none", ["..", "sibling", "canary.txt"], sep)
        add("none", ["..", "..", "canary.txt"], sep)
        add("none", ["a", "..", "..", "home", ".config", "@"], sep)
        add("none", ["a", "..", "..", "sibling"], sep)            # final component is an existing directory outside out/: the open fails (EISDIR)
        add("none", ["a", "..", "..", LONG, "@"], sep)            # ENAMETOOLONG outside out/
    for p in ("abs-fs", "abs-bs", "abs-mixed", "unc-bs", "unc-fs"):
        sep = "bs" if p.endswith("bs") else "fs" if p.endswith("fs") else "mixed"
        add(p, ["@"], sep)
        add(p, ["newdir", "@"], sep)
        add(p, ["canary.txt"], sep)
        add(p, ["..", "sibling", "@"], sep)
        add(p, [LONG, "@"], sep)
    for p in ("drive-bs", "drive-fs", "drive-rel", "drive-abs"):
        sep = "fs" if p == "drive-fs" else "bs"
        add(p, ["@"], sep)
        add(p, ["sub", "@"], sep)
        add(p, ["..", "..", "@"], sep)
    for p in ("drive-abs-dbs", "drive-abs-dfs", "drive-abs-fs"):
        sep = "bs" if p.endswith("bs") else "fs"
        add(p, ["@"], sep)
        add(p, ["newdir", "@"], sep)
        add(p, ["canary.txt"], sep)
    for sep in ("bs", "fs"):
        add("none", ["...", "@"], sep)
        add("none", [".. ", "@"], sep)
        add("none", [".", "@"], sep)
        add("none", ["a", ".", "@"], sep)
        add("none", ["a", "", "@"], sep)
        add("none", ["CON", "@"], sep)
        add("none", ["a", "CON"], sep)
        add("none", [LONG, "@"], sep)
        add("none", ["..", LONG, "@"], sep)
        add("none", [UNI, "@"], sep)
        add("none", ["..", UNI, "@"], sep)
        add("none", ["a", ".."], sep)
        add("none", ["a", "."], sep)
        add("none", ["a", ""], sep)
        add("none", ["..", ""], sep)
        add("none", ["..", ".."], sep)
        add("none", ["..", "sibling"], sep)
    # names that continue the directory of a benign entry which is written just before them (sorted chain order: `!` < `.`;
    # explicit order: the benign lead names come first) and only then climb out — anything that resolves a name relative to
    # what was resolved before it sees an ordinary, already accepted prefix
    for sep in ("bs", "fs", "mixed"):
        for k in (2, 3, 4):
            add("none", ["!b1", "Sub Dir"] + [".."] * k + ["@"], sep)
        add("none", ["!b0", "..", "..", "@"], sep)
        add("none", ["!b1", "Sub Dir", "..", "..", "..", "sibling", "@"], sep)
    # the same continuations with ONE change of separator kind: backslashes up to component j, forward slashes behind it, and the
    # other way round (a name is split at its last backslash / last slash by more than one layer; after C11-r8m3)
    for comps in (["!b1", "Sub Dir", "..", "..", "..", "@"], ["!b1", "Sub Dir", "..", "..", "..", "..", "@"], ["!b0", "..", "..", "@"],
                  ["!b1", "Sub Dir", "..", "..", "..", "sibling", "@"], ["zz", "deep", "er", "..", "..", "..", "..", "@"]):
        for j in range(1, len(comps) - 1):
            add("none", comps, "mixed", pat=(0xFFFF << j) & 0xFFFF)
            add("none", comps, "mixed", pat=(1 << j) - 1)
    add("none", [".."], "bs")
    add("none", ["."], "bs")
    add("none", ["@"], "bs")
    # names a delete-`../`-once sanitiser turns into climbing paths
    for tok, sep in (("....\\", "bs"), ("..../", "fs")):
        add("none", ["..", tok, tok, "@"], sep)
        add("none", ["", tok, "@"], sep)
        add("none", ["..", tok, "sibling", "@"], sep)
        add("none", [tok, tok, "@"], sep)
        add("none", ["a", tok, "..", "@"], sep)
    # every prefix class behind 1-2 leading `.` components; the separator after the `.` single, doubled, or the other kind
    def lead(n, lsep, prefix, comps, sep):
        add(prefix, comps, sep)
        S[-1]["lead"] = n
        S[-1]["lsep"] = lsep
    for p in ("abs-fs", "abs-bs", "abs-mixed", "unc-bs", "unc-fs"):
        fs = p.endswith("fs")
        nat, dbl, oth = ("/", "//", "\\") if fs else ("\\", "\\\\", "/")
        sep = "fs" if fs else "bs"
        lead(1, nat, p, ["@"], sep)
        lead(2, nat, p, ["@"], sep)
        lead(1, dbl, p, ["newdir", "@"], sep)
        lead(1, oth, p, ["canary.txt"], sep)
    for sep, nat, dbl in (("bs", "\\", "\\\\"), ("fs", "/", "//")):
        lead(1, nat, "none", ["..", "@"], sep)
        lead(2, nat, "none", ["..", "..", "@"], sep)
        lead(1, nat, "none", ["a", "..", "..", "sibling", "@"], sep)
        lead(1, nat, "none", ["sub", "@"], sep)
        lead(1, dbl, "none", ["..", "@"], "dbs" if sep == "bs" else "dfs")
    lead(1, "\\", "drive-bs", ["..", "..", "@"], "bs")
    lead(1, "\\", "drive-abs", ["@"], "bs")
    lead(1, "/", "drive-fs", ["@"], "fs")
    return S


def random_spec(rng):
    depth = rng.randint(1, 6)
    comps = []
    for _ in range(depth):
        r = rng.random()
        if r < 0.40:
            comps.append("..")
        elif r < 0.55:
            comps.append("a")
        else:
            comps.append(rng.choice(COMPONENTS))
    if rng.random() < 0.75:
        comps[-1] = "@" if rng.random() < 0.85 else "canary.txt"
    pr = rng.random()
    prefix = "none" if pr < 0.55 else rng.choice(PREFIXES[1:])
    spec = {"prefix": prefix, "comps": comps, "sep": rng.choice(SEPSTYLES), "pat": rng.getrandbits(16)}
    if rng.random() < 0.30:
        spec["lead"] = rng.randint(1, 2)
        spec["lsep"] = rng.choice(("\\", "/", "\\\\", "//", "\\/", "/\\"))
        if len(spec["lsep"]) > 1 and not prefix.startswith(("abs", "unc")):
            # `.` + empty component + X is root-anchored once the `./` is dropped: only the sandbox's own abs/ path may follow (contained() would drop anything else)
            spec["prefix"] = rng.choice(("abs-fs", "abs-bs", "abs-mixed", "unc-bs", "unc-fs"))
    return spec


def plan(tier, seed):
    """Deterministic list of archive plans: each = list of (global index, spec)."""
    thorough = tier == "thorough"
    total = 3000 if thorough else 250 + 70   # the enumerated core (about 250 specs) plus seed-dependent ones
    per = 5 if thorough else 3
    rng = random.Random(0xC11 * 1000003 + int(seed))
    specs = core_specs()
    guard = 0
    seen = {json.dumps(s, sort_keys=True) for s in specs}
    while len(specs) < total and guard < total * 50:
        guard += 1
        s = random_spec(rng)
        k = json.dumps(s, sort_keys=True)
        if k in seen:
            continue
        seen.add(k)
        specs.append(s)
    indexed = list(enumerate(specs))
    # names whose final component cannot be a file (run-aborting on the unchanged tree) go to the end of their archive: spread them
    def aborting(s):
        last = s["comps"][-1]
        return last in ("..", ".", "", "sibling", "abs", "home", "out-evil", "CON", "...", ".. ", "a", "C:", UNI, LONG) or LONG in s["comps"]
    calm = [x for x in indexed if not aborting(x[1])]
    rough = [x for x in indexed if aborting(x[1])]
    rng2 = random.Random(0xC11 * 7919 + int(seed))
    rng2.shuffle(calm)
    rng2.shuffle(rough)
    n_arch = (len(indexed) + per - 1) // per
    groups = [[] for _ in range(n_arch)]
    for j, x in enumerate(rough):
        groups[j % n_arch].append(x)
    gi = 0
    for x in calm:
        tries = 0
        while len(groups[gi % n_arch]) >= per and tries < n_arch:
            gi += 1
            tries += 1
        groups[gi % n_arch].insert(0, x)
        gi += 1
    return [g for g in groups if g]


def configs():
    out = []
    for preserve in (0, 1):
        for explicit in (0, 1):
            for threads in (1, 4):
                out.append({"preserve": preserve, "chain": 0, "explicit": explicit, "threads": threads})
            out.append({"preserve": preserve, "chain": 1, "explicit": explicit, "threads": None})
    return out


# ------------------------------------------------------------------------------------------------ sandbox

def make_box(root):
    """outer/ u1/../u6/ sb/ {out, out-evil, sibling, abs, home, cwd, in, tmp}; canaries at every level."""
    outer = root
    os.makedirs(outer)
    d = outer
    _canary(d)
    for l in LEVELS:
        d = os.path.join(d, l)
        os.mkdir(d)
        _canary(d)
    sb = os.path.join(d, "sb")
    os.mkdir(sb)
    _canary(sb)
    box = {"outer": outer, "sb": sb}
    for n in ("out", "out-evil", "sibling", "abs", "home", "cwd", "in", "tmp"):
        p = os.path.join(sb, n)
        os.mkdir(p)
        box[n] = p
        if n not in ("out", "in", "tmp"):
            _canary(p)
    for sub in (".config", ".cache", ".local/share", ".local/state"):
        os.makedirs(os.path.join(box["home"], sub))
    depth = len(os.path.relpath(box["out"], outer).split(os.sep))
    assert depth >= MAXUP + 1, depth
    box["out_depth"] = depth
    return box


def _canary(d):
    with open(os.path.join(d, "canary.txt"), "w") as f:
        f.write("canary of " + os.path.basename(d) + "\n")


def snapshot(root):
    m = {}
    stack = [root]
    n = len(root) + 1
    while stack:
        d = stack.pop()
        with os.scandir(d) as it:
            for e in it:
                st = e.stat(follow_symlinks=False)
                rel = e.path[n:]
                if stat.S_ISDIR(st.st_mode):
                    m[rel] = ("d", stat.S_IMODE(st.st_mode), 0, st.st_mtime_ns, None)
                    stack.append(e.path)
                elif stat.S_ISREG(st.st_mode):
                    with open(e.path, "rb") as f:
                        h = hashlib.sha256(f.read()).hexdigest()
                    m[rel] = ("f", stat.S_IMODE(st.st_mode), st.st_size, st.st_mtime_ns, h)
                elif stat.S_ISLNK(st.st_mode):
                    m[rel] = ("l", 0, 0, st.st_mtime_ns, os.readlink(e.path))
                else:
                    m[rel] = ("o", stat.S_IMODE(st.st_mode), 0, st.st_mtime_ns, None)
    return m


def snap_diff(before, after, outer, out):
    """Changes outside out/: lists of absolute paths (created, removed, modified) + set of directories whose mtime alone changed."""
    created, removed, modified, dirm = [], [], [], set()
    for rel in set(before) | set(after):
        p = os.path.join(outer, rel)
        if under(p, out):
            continue
        b, a = before.get(rel), after.get(rel)
        if b is None:
            created.append(p)
        elif a is None:
            removed.append(p)
        elif b != a:
            if b[0] == "d" and a[0] == "d" and b[1] == a[1]:
                dirm.add(p)
            else:
                modified.append(p)
    return sorted(created), sorted(removed), sorted(modified), dirm


# ------------------------------------------------------------------------------------------------ strace log

_STR = re.compile(r'"((?:[^"\\]|\\.)*)"(\.\.\.)?')
_CALL = re.compile(r"^([a-z_0-9]+)\((.*)\)\s+=\s+(-?\d+|\?)(.*)$")
_FD = re.compile(r"^(AT_FDCWD|-?\d+)(?:<((?:[^>\\]|\\.)*)>)?$")
_ESC = {"n": 10, "t": 9, "r": 13, "v": 11, "f": 12, "a": 7, "b": 8, "e": 27, '"': 34, "\\": 92, ">": 62, "<": 60}


def unescape(s):
    """strace string literal body -> str (bytes decoded as UTF-8, surrogateescape)."""
    out = bytearray()
    i, n = 0, len(s)
    while i < n:
        c = s[i]
        if c != "\\":
            out += c.encode("utf-8", "surrogateescape")
            i += 1
            continue
        i += 1
        if i >= n:
            break
        c = s[i]
        if c in "01234567":
            j = i
            while j < n and j < i + 3 and s[j] in "01234567":
                j += 1
            out.append(int(s[i:j], 8) & 0xFF)
            i = j
        elif c == "x" and i + 2 < n + 1:
            out.append(int(s[i + 1:i + 3], 16))
            i += 3
        else:
            out.append(_ESC.get(c, ord(c) & 0xFF))
            i += 1
    return out.decode("utf-8", "surrogateescape")


def split_args(a):
    """Top-level comma split of a strace argument list (quotes, <fd paths>, braces and brackets respected)."""
    items, cur, depth, i, n = [], "", 0, 0, len(a)
    while i < n:
        c = a[i]
        if c == '"':
            m = _STR.match(a, i)
            if not m:
                cur += a[i:]
                break
            cur += m.group(0)
            i = m.end()
            continue
        if c == "<" and re.search(r"(AT_FDCWD|\d)$", cur):
            j = i + 1
            while j < n and a[j] != ">":
                j += 2 if a[j] == "\\" else 1
            cur += a[i:j + 1]
            i = j + 1
            continue
        if c in "{[(":
            depth += 1
        elif c in "}])":
            depth -= 1
        if c == "," and depth == 0:
            items.append(cur.strip())
            cur = ""
        else:
            cur += c
        i += 1
    if cur.strip():
        items.append(cur.strip())
    return items


def _s(item):
    """('path', truncated?) if the item is a string literal, else None."""
    m = _STR.match(item)
    if m and m.end() == len(item):
        return unescape(m.group(1)), bool(m.group(2))
    return None


def _fdpath(item, cwd):
    m = _FD.match(item)
    if not m:
        return None
    if m.group(2) is not None:
        return unescape(m.group(2))
    return cwd if m.group(1) == "AT_FDCWD" else None


def parse_call(line, cwd):
    """-> None (not a call line) or dict(name, ok, errno, write, targets=[(base, path)], raw, bad=reason|None)."""
    m = _CALL.match(line)
    if not m:
        return None
    name, argstr, ret, tail = m.group(1), m.group(2), m.group(3), m.group(4)
    ok = ret not in ("?",) and not ret.startswith("-")
    em = re.match(r"\s+([A-Z0-9]+)\s", tail + " ")
    ev = {"name": name, "ok": ok, "errno": em.group(1) if (em and not ok) else None, "raw": line[:600], "bad": None, "write": True, "targets": []}
    it = split_args(argstr)

    def S(k):
        if k >= len(it):
            ev["bad"] = "arity"
            return None
        r = _s(it[k])
        if r is None:
            if it[k] == "NULL":
                return None
            ev["bad"] = "not-a-string"
            return None
        if r[1]:
            ev["bad"] = "truncated-string"
        return r[0]

    def D(k):
        if k >= len(it):
            ev["bad"] = "arity"
            return None
        r = _fdpath(it[k], cwd)
        if r is None:
            ev["bad"] = "dirfd-unresolved"
        return r

    def T(base, path):
        if path is not None and base is not None:
            ev["targets"].append((base, path))

    if name in ("open", "creat"):
        T(cwd, S(0))
        ev["write"] = True if name == "creat" else any(f in argstr for f in WRITE_FLAGS)
    elif name in ("openat", "openat2"):
        ev["write"] = any(f in argstr for f in WRITE_FLAGS)
        if ev["write"]:
            p = S(1)
            T(cwd if (p or "").startswith("/") else D(0), p)
    elif name in ("mkdir", "rmdir", "unlink", "truncate", "chmod", "chown", "lchown", "mknod"):
        T(cwd, S(0))
    elif name in ("mkdirat", "unlinkat", "fchmodat", "fchownat", "mknodat"):
        p = S(1)
        T(cwd if (p or "").startswith("/") else D(0), p)
    elif name == "utimensat":
        p = S(1)
        if p is None and ev["bad"] is None:
            T("/", D(0))
        else:
            T(cwd if (p or "").startswith("/") else D(0), p)
    elif name == "rename":
        T(cwd, S(0))
        T(cwd, S(1))
    elif name in ("renameat", "renameat2"):
        p, q = S(1), S(3)
        T(cwd if (p or "").startswith("/") else D(0), p)
        T(cwd if (q or "").startswith("/") else D(2), q)
    elif name == "link":
        T(cwd, S(1))
    elif name == "linkat":
        q = S(3)
        T(cwd if (q or "").startswith("/") else D(2), q)
    elif name == "symlink":
        T(cwd, S(1))
    elif name == "symlinkat":
        q = S(2)
        T(cwd if (q or "").startswith("/") else D(1), q)
    elif name in ("ftruncate", "fchmod", "fchown"):
        p = D(0)
        T("/", p)
    elif name in ("chdir", "fchdir"):
        ev["write"] = False
        ev["chdir"] = True
    else:
        ev["write"] = False
    return ev


def resolve(base, path):
    """(lexical, physical) absolute resolutions of a traced path."""
    p = path if path.startswith("/") else os.path.join(base, path)
    lex = _collapse(p)
    try:
        real = os.path.realpath(p)
    except (OSError, ValueError):
        real = lex
    return lex, real


def read_logs(logdir, cwd):
    """All call events of all per-thread logs, in (file, line) order."""
    evs, bad, lines = [], [], 0
    for fn in sorted(os.listdir(logdir), key=lambda x: (len(x), x)):
        with open(os.path.join(logdir, fn), "r", errors="surrogateescape") as f:
            for line in f:
                line = line.rstrip("\n")
                if not line or line.startswith("+++") or line.startswith("---"):
                    continue
                lines += 1
                ev = parse_call(line, cwd)
                if ev is None:
                    if "<unfinished" in line or "resumed>" in line:
                        bad.append("unfinished/resumed line: " + line[:200])
                    else:
                        bad.append("unparsed line: " + line[:200])
                    continue
                evs.append(ev)
    return evs, bad, lines


# ------------------------------------------------------------------------------------------------ one run

BENIGN = [("!b0\\first.txt", "lead"), ("!b1\\Sub Dir\\!early.txt", "lead"), ("!b1\\Sub Dir\\second.bin", "lead"), ("zz\\deep\\er\\last.txt", "trail"), ("zz_\u00fcn\u00ef\\\u00fc_data.dat", "trail")]


def content_for(name, origin, seed):
    h = hashlib.sha256(("%s|%s|%d" % (origin, name, seed)).encode("utf-8", "surrogateescape")).hexdigest()
    return ("%s:%s:" % (origin, h)).encode() + (h.encode() * (1 + (int(h[:2], 16) % 40)))


def build_case(group, cfg, box, seed, ai):
    """Realise the names against this run's sandbox, write base (and patch) archives. Returns the case description."""
    rng = random.Random((int(seed) * 1000003 + ai) * 31 + cfg["preserve"] * 8 + cfg["chain"] * 4 + cfg["explicit"] * 2 + (1 if cfg["threads"] == 4 else 0))
    hostile, dropped = [], []
    seen = {fold_key(b[0]) for b in BENIGN} | {fold_key("(listfile)"), fold_key("!p0\\patch only.txt")}
    for gi, spec in group:
        sp = dict(spec)
        sp["comps"] = [("h%d.txt" % gi) if c == "@" else c for c in spec["comps"]]
        name = realize(sp, box["abs"])
        if not contained(name, box):
            dropped.append((gi, "not-contained"))
            continue
        if not listable(name):
            dropped.append((gi, "not-listable"))
            continue
        k = fold_key(name)
        if k in seen:
            dropped.append((gi, "duplicate-after-folding"))
            continue
        seen.add(k)
        hostile.append({"gi": gi, "name": name, "cls": name_class(name), "prefix": ("dot%d%s+" % (spec["lead"], "x" if len(spec.get("lsep", "")) > 1 else "") if spec.get("lead") else "") + spec["prefix"],
                        "sep": spec["sep"], "up": up_depth(name), "in": "base"})
    # ghosts (after C11-r7m3): up to three names of the same hostile shapes that no archive holds - asked for on the command line
    # (explicit runs) and / or listed by the listfiles without an entry behind them. A name the tool cannot read is still a
    # name it must not follow out of the output directory (error paths clean up, too).
    ghosts = []
    for h in hostile[:6:2]:
        leaf = "h%d.txt" % h["gi"]
        if h["name"].endswith(leaf):
            cand = h["name"][:-len(leaf)] + "g%d.txt" % h["gi"]
            if contained(cand, box) and listable(cand) and fold_key(cand) not in seen:
                seen.add(fold_key(cand))
                ghosts.append(dict(h, name=cand, cls=name_class(cand), up=up_depth(cand), **{"in": "nowhere"}))
    # (without --skip-errors a single-archive extraction that meets an unreadable name writes nothing at all: there the ghosts
    # would only turn the run into one that shows nothing, so they are used with --skip-errors and with patch chains)
    skip_errors = random.Random(rng.getrandbits(32)).random() < 0.5
    if not (skip_errors or cfg["chain"]):
        ghosts = []
    ghost_listed = [g["name"] for g in ghosts] if ai % 3 != 2 else []
    version = rng.choice((1, 2))
    lead = [b[0] for b in BENIGN if b[1] == "lead"]
    trail = [b[0] for b in BENIGN if b[1] == "trail"]
    # every eighth archive is a large one (after C11-r3m1): 1100 small ordinary entries in front of the hostile names, so that a
    # whole-archive extraction is a request of more than 1000 names (the CLI and the library switch to their bulk paths there)
    bulk = ["bulk\\d%02d\\f%04d.txt" % (j % 7, j) for j in range(1100)] if ai % 8 == 5 else []
    order = lead + bulk + [h["name"] for h in hostile] + trail
    expect = {}
    files = []
    # every eighth archive carries one ordinary entry of a little more than 4 MiB (after C11-r5m3: tools stage large members
    # differently from small ones - whatever they stage has to be beneath the output directory as well)
    large = "zz\\large asset.bin" if ai % 8 == 1 else None
    if large:
        order = order[:-len(trail)] + [large] + trail if trail else order + [large]
    for n in order:
        data = content_for(n, "base", seed)
        if n == large:
            data = (data[:64] * (4 * 1024 * 1024 // 64 + 1))[:4 * 1024 * 1024 + 17]
        expect[n] = data
        files.append(refmpq.RefFile(n, data, method=2 if n == large else rng.choice((0, 2))))
    arc, _ = refmpq.write_archive(files, version=version, listfile=True, listfile_names=order + ghost_listed)
    base_path = os.path.join(box["in"], "base.mpq")
    with open(base_path, "wb") as f:
        f.write(arc)
    patch_path = None
    if cfg["chain"]:
        pn = []
        for j, h in enumerate(hostile):
            if j % 2 == 0:
                pn.append(h["name"])
        extra = None
        if hostile:
            # one hostile name that exists in the patch archive only: the first one, one level deeper
            h0 = hostile[0]
            sepc = "/" if (h0["sep"] in ("fs", "dfs")) else "\\"
            cand = "..%s%s" % (sepc, "p%d.txt" % h0["gi"])
            if contained(cand, box) and fold_key(cand) not in seen:
                seen.add(fold_key(cand))
                extra = {"gi": h0["gi"], "name": cand, "cls": name_class(cand), "prefix": "none", "sep": "fs" if sepc == "/" else "bs", "up": 1, "in": "patch"}
                hostile.append(extra)
                pn.append(cand)
        pn = ["!b1\\Sub Dir\\second.bin", "!p0\\patch only.txt"] + pn
        pfiles = []
        for n in pn:
            data = content_for(n, "patch", seed)
            expect[n] = data
            pfiles.append(refmpq.RefFile(n, data, method=rng.choice((0, 2))))
        parc, _ = refmpq.write_archive(pfiles, version=rng.choice((1, 2)), listfile=True, listfile_names=pn + ghost_listed[:1])
        patch_path = os.path.join(box["in"], "patch.mpq")
        with open(patch_path, "wb") as f:
            f.write(parc)
    out_arg = box["out"] if rng.random() < 0.5 else "../out"
    args = ["mpq", "extract", "../in/base.mpq", "-o", out_arg]
    if cfg["preserve"]:
        args.append("--preserve-paths")
    if cfg["threads"]:
        args += ["--threads", str(cfg["threads"])]
    if skip_errors:
        args.append("--skip-errors")
    if patch_path:
        args += ["--patch", "../in/patch.mpq"]
    benign = list(lead) + list(trail)
    if cfg["chain"]:
        benign.append("!p0\\patch only.txt")
    if cfg["explicit"]:
        names = lead + [h["name"] for h in hostile if h["in"] == "base" or cfg["chain"]] + trail
        if cfg["chain"]:
            names = ["!p0\\patch only.txt"] + names
        names = names + [g["name"] for g in ghosts]
        args += ["--"] + names
        tool_order = names
    elif cfg["chain"]:
        tool_order = sorted(set(order) | set(expect), key=lambda s: s.encode("utf-8", "surrogateescape"))
    else:
        tool_order = order
    hostile = hostile + ghosts
    return {"hostile": hostile, "dropped": dropped, "ghosts": [g["name"] for g in ghosts], "bulk": len(bulk), "large": bool(large), "args": args, "expect": expect, "benign": benign, "lead": lead + (["!p0\\patch only.txt"] if cfg["chain"] else []),
            "tool_order": tool_order, "out_arg": out_arg, "version": version}


def expected_target(name, box, preserve):
    s = sys_form(name)
    if not preserve:
        comps = [c for c in s.split("/") if c not in ("", ".")]
        leaf = comps[-1] if comps and comps[-1] != ".." else ""
        return _collapse(box["out"] + "/" + leaf)
    if s.startswith("/"):
        return _collapse(s)
    return _collapse(box["out"] + "/" + s)


def run_case(cli, ai, group, cfg, scratch, seed, keep=False):
    tag = "r%04d-%d%d%d%s" % (ai, cfg["preserve"], cfg["chain"], cfg["explicit"], cfg["threads"] or 0)
    outer = os.path.join(scratch, tag)
    logdir = os.path.join(scratch, "logs", tag)
    shutil.rmtree(outer, ignore_errors=True)
    shutil.rmtree(logdir, ignore_errors=True)
    os.makedirs(logdir)
    rx = _outer_rx(outer)

    def sh(x):
        return _short(x, rx)
    r = {"ai": ai, "cfg": cfg, "tag": tag, "verdict": "held", "viol": [], "inconc": [], "counters": {}, "classes": set()}
    cnt = r["counters"]
    try:
        box = make_box(outer)
        case = build_case(group, cfg, box, seed, ai)
        r["names"] = [sh(h["name"]) for h in case["hostile"]]
        r["hostile"] = case["hostile"]
        cnt["names_dropped_by_safety_or_format_gate"] = len(case["dropped"])
        env = {"PATH": os.environ.get("PATH", "/usr/bin:/bin"), "HOME": box["home"], "XDG_CONFIG_HOME": box["home"] + "/.config", "XDG_CACHE_HOME": box["home"] + "/.cache",
               "XDG_DATA_HOME": box["home"] + "/.local/share", "XDG_STATE_HOME": box["home"] + "/.local/state", "TMPDIR": box["tmp"], "RUST_BACKTRACE": "0", "NO_COLOR": "1",
               "LANG": "C.UTF-8"}
        # victims (after C11-r7m3): in every other run a file already stands where a hostile name would lead if it were followed
        # with its directories kept; whatever the tool does to it (overwrite, truncate, remove, rename) shows in both observers
        if ai % 2 == 1:
            for h in case["hostile"]:
                tgt = expected_target(h["name"], box, True)
                if under(tgt, outer) and not under(tgt, box["out"]) and tgt != box["out"] and not os.path.lexists(tgt):
                    try:
                        os.makedirs(os.path.dirname(tgt), exist_ok=True)
                        with open(tgt, "wb") as f:
                            f.write(b"victim of " + h["name"].encode("utf-8", "surrogateescape"))
                        cnt["victim_files_planted_outside_out"] = cnt.get("victim_files_planted_outside_out", 0) + 1
                    except OSError:
                        pass
        cnt["ghost_names"] = len(case.get("ghosts", []))
        if case.get("bulk"):
            cnt["runs_on_archives_of_more_than_1000_entries"] = 1
        if case.get("large"):
            cnt["runs_on_archives_with_an_entry_over_4MiB"] = 1
        before = snapshot(outer)
        cmd = ["strace", "-ff", "-y", "-s", "16384", "-e", "trace=" + ",".join(TRACE), "-o", os.path.join(logdir, "t"), cli] + case["args"]
        try:
            p = subprocess.run(cmd, cwd=box["cwd"], env=env, stdout=subprocess.PIPE, stderr=subprocess.PIPE, timeout=120)
        except subprocess.TimeoutExpired:
            r["verdict"] = "inconc"
            r["inconc"].append("cli-timeout")
            return r
        after = snapshot(outer)
        r["rc"] = p.returncode
        stdout = p.stdout.decode("utf-8", "replace")
        stderr = p.stderr.decode("utf-8", "replace")
        r["stderr_tail"] = stderr[-300:]
        cnt["cli_runs"] = 1
        cnt["cli_exit|%s" % ("0" if p.returncode == 0 else "nonzero")] = 1
        m = re.search(r"Found (\d+) files in listfile", stdout)
        if m:
            cnt["tool_reported_listfile_entries"] = int(m.group(1))
        if p.returncode < 0 or p.returncode == 101:
            cnt["cli_crashed_or_panicked"] = 1
        if not os.listdir(logdir):
            r["verdict"] = "inconc"
            r["inconc"].append("no-strace-log")
            return r

        # ---------------- observer 2: strace
        evs, bad, nlines = read_logs(logdir, box["cwd"])
        cnt["syscalls_traced"] = nlines
        out_lex = box["out"]
        out_real = os.path.realpath(box["out"])
        ancestors = set()
        a = out_lex
        while a != "/":
            ancestors.add(a)
            a = os.path.dirname(a)
        outside = []          # (ev, lex, real)
        for ev in evs:
            if ev.get("chdir"):
                bad.append("tool changed its working directory: " + ev["raw"][:120])
                continue
            if not ev["write"]:
                continue
            cnt["write_class_syscalls_checked"] = cnt.get("write_class_syscalls_checked", 0) + 1
            if ev["bad"]:
                bad.append("%s: %s" % (ev["bad"], ev["raw"][:160]))
                continue
            for base, path in ev["targets"]:
                ev = dict(ev, text=path)
                lex, real = resolve(base, path)
                if lex in EXEMPT_EXACT or any(lex.startswith(x) for x in EXEMPT_PREFIX):
                    continue
                if under(lex, out_lex) and under(real, out_real):
                    cnt["write_class_inside_out"] = cnt.get("write_class_inside_out", 0) + 1
                    continue
                if ev["name"] in ("mkdir", "mkdirat") and ev["errno"] == "EEXIST" and lex in ancestors:
                    cnt["mkdir_p_of_output_dir_ancestors"] = cnt.get("mkdir_p_of_output_dir_ancestors", 0) + 1
                    continue
                outside.append((ev, lex, real))
        if bad:
            r["inconc"].append("strace-log-not-fully-understood")
            r["bad"] = bad[:5]

        # ---------------- observer 1: snapshot
        created, removed, modified, dirm = snap_diff(before, after, outer, box["out"])
        snap_paths = set(created) | set(removed) | set(modified)
        ok_paths = {real for (ev, lex, real) in outside if ev["ok"]}
        snap_text = {real: ev["text"] for (ev, lex, real) in outside if ev["ok"]}
        for d in dirm:
            if not any(os.path.dirname(x) == d for x in snap_paths | ok_paths):
                snap_paths.add(d)
                modified.append(d)

        # ---------------- attribution of both observers' findings to names
        hostile = case["hostile"]
        order_ix = {n: i for i, n in enumerate(case["tool_order"])}
        hs = sorted(hostile, key=lambda h: order_ix.get(h["name"], 1 << 30))
        targets = {h["name"]: expected_target(h["name"], box, cfg["preserve"]) for h in hs}
        completed = set()
        per_name = {}            # name -> {"ok": [...], "fail": [...]}

        def full_texts(h):
            """The path strings the tool may hand to the kernel for this name (Path::join semantics), textually: first the expected one (separators
            converted), then plausible deviations (name taken raw; leading `./` dropped once / repeatedly; leading separators dropped)."""
            n0 = sys_form(h["name"])
            once = n0[2:] if n0.startswith("./") else n0
            forms = [n0, h["name"], once, re.sub(r"^(?:\./)+", "", n0), re.sub(r"^(?:\.?/+)+", "", n0)]
            out = []
            for n in forms:
                if not cfg["preserve"]:
                    comps = [c for c in n.split("/") if c not in ("", ".")]
                    n = comps[-1] if comps and comps[-1] != ".." else ""
                out.append(n if n.startswith("/") else case["out_arg"].rstrip("/") + "/" + n)
            return out

        texts = {h["name"]: full_texts(h) for h in hs}
        NFORMS = 5

        def first_live(cands):
            live = [h for h in cands if h["name"] not in completed]
            return (live or cands or [None])[0]

        def attribute(path, text):
            """Which hostile name made the tool touch this path?  1. the call's own path string is the expected string for the name or a
            component-wise prefix of it (create_dir_all walks the parents); 2. the unique leaf token; 3. the resolved target."""
            if text is not None:
                t = text.rstrip("/") or "/"
                t = re.sub(r"^/+", "/", t)
                for form in range(NFORMS):
                    c = [h for h in hs if re.sub(r"^/+", "/", texts[h["name"]][form]).rstrip("/") == t or re.sub(r"^/+", "/", texts[h["name"]][form]).startswith(t + "/")]
                    if c:
                        return first_live(c)
            leaf = os.path.basename(path)
            if re.match(r"^[hp](\d+)\.txt$", leaf):
                for h in hs:
                    if os.path.basename(sys_form(h["name"])) == leaf:
                        return h
            return first_live([h for h in hs if targets[h["name"]] == path or targets[h["name"]].startswith(path.rstrip("/") + "/")])

        def norm(t):
            return re.sub(r"^/+", "/", t).rstrip("/") or "/"

        for i, (ev, lex, real) in enumerate(outside):
            h = None
            if ev["name"] in ("mkdir", "mkdirat"):
                # a directory made on the way to a file (create_dir_all, then the write): it belongs to the name of the open that follows it
                for ev2, lex2, _r2 in outside[i + 1:]:
                    if ev2["name"].startswith("open") or ev2["name"] == "creat":
                        if norm(ev2["text"]).startswith(norm(ev["text"]).rstrip("/") + "/"):
                            h = attribute(lex2, ev2["text"])
                        break
            if h is None:
                h = attribute(lex, ev["text"])
            key = h["name"] if h else None
            slot = per_name.setdefault(key, {"ok": [], "fail": [], "h": h})
            slot["ok" if ev["ok"] else "fail"].append({"call": ev["name"], "errno": ev["errno"], "resolved": real, "line": ev["raw"][:300]})
            if h and ev["name"].startswith("open") and lex == targets[h["name"]]:
                completed.add(h["name"])
        for pth in sorted(snap_paths):
            h = attribute(pth, snap_text.get(pth))
            key = h["name"] if h else None
            slot = per_name.setdefault(key, {"ok": [], "fail": [], "h": h})
            slot.setdefault("snap", []).append(("created" if pth in created else "removed" if pth in removed else "modified") + ":" + os.path.relpath(pth, outer))

        mode = "preserve" if cfg["preserve"] else "flat"
        for key, slot in per_name.items():
            h = slot["h"]
            cls = h["cls"] if h else "unattributed"
            strong = bool(slot["ok"] or slot.get("snap"))
            clause = "write-outside" if strong else "attempted-write-outside"
            sig = "%s|%s|%d|%s" % (clause, mode, cfg["chain"], cls)
            first = (slot["ok"] or slot["fail"] or [{}])[0]
            what = ("`mpq extract` %s, %s: entry name %r (class %s%s) -> %s outside the output directory: %s%s" % (
                "--preserve-paths" if cfg["preserve"] else "without --preserve-paths", "patch chain" if cfg["chain"] else "single archive",
                sh(key), cls, (", only in the patch archive" if (h and h["in"] == "patch") else ""),
                "wrote" if strong else "tried to write (call failed)",
                sh(first.get("line", "")) if first else "", ("; snapshot: " + ", ".join(slot["snap"][:3])) if slot.get("snap") else ""))
            r["viol"].append({"sig": sig, "what": what,
                              "detail": {"name": key, "class": cls, "config": cfg, "args": [sh(x) for x in case["args"]], "exit": p.returncode,
                                         "strace_successful": slot["ok"][:4], "strace_failed": slot["fail"][:4], "snapshot": slot.get("snap", [])[:6],
                                         "sandbox_layout": "outer/" + "/".join(LEVELS) + "/sb/{out,abs,sibling,out-evil,home,cwd,in}", "cwd": "sb/cwd", "out_arg": sh(case["out_arg"])}})
        # ---------------- the two observers must agree on successful escapes
        dis = []
        for pth in snap_paths:
            if pth not in ok_paths:
                dis.append("snapshot-only:" + os.path.relpath(pth, outer))
        for pth in ok_paths:
            if pth not in snap_paths and os.path.dirname(pth) not in dirm:
                dis.append("strace-only:" + os.path.relpath(pth, outer))
        if dis:
            r["inconc"].append("observers-disagree")
            r["disagree"] = dis[:6]
        cnt["escapes_seen_by_both_observers"] = len(snap_paths & ok_paths)
        cnt["outside_calls_successful"] = sum(1 for (ev, _, _) in outside if ev["ok"])
        cnt["outside_calls_failed"] = sum(1 for (ev, _, _) in outside if not ev["ok"])

        # ---------------- specific places outside the outer directory that no name may reach (defence in depth)
        for probe in (os.path.join(os.path.dirname(outer), "canary.txt"), os.path.join(os.path.dirname(os.path.dirname(outer)), "canary.txt")):
            if os.path.lexists(probe):
                r["viol"].append({"sig": "write-outside|%s|%d|beyond-outer" % (mode, cfg["chain"]), "what": "object appeared above the run's outer directory: " + probe, "detail": {"path": probe}})

        # ---------------- benign files: extracted, byte-identical (so that extracting nothing cannot pass)
        in_out = 0
        for _root, _ds, fs in os.walk(box["out"]):
            in_out += len(fs)
        cnt["files_found_in_out"] = in_out
        ok_lead, ok_all = True, True
        for n in case["benign"]:
            tgt = expected_target(n, box, cfg["preserve"])
            cnt["benign_expected"] = cnt.get("benign_expected", 0) + 1
            good = False
            try:
                with open(tgt, "rb") as f:
                    good = f.read() == case["expect"][n]
            except OSError:
                good = False
            if good:
                cnt["benign_verified"] = cnt.get("benign_verified", 0) + 1
            else:
                ok_all = False
                if n in case["lead"]:
                    ok_lead = False
        for h in hostile:
            tgt = expected_target(h["name"], box, cfg["preserve"])
            inside = False
            if under(tgt, box["out"]) and tgt != box["out"] and os.path.isfile(tgt):
                try:
                    with open(tgt, "rb") as f:
                        inside = f.read() == case["expect"].get(h["name"])     # this name's own bytes (leaves such as canary.txt are shared in flat mode)
                except OSError:
                    inside = False
            if inside:
                cnt["hostile_names_extracted_inside_out"] = cnt.get("hostile_names_extracted_inside_out", 0) + 1
            if inside or h["name"] in per_name:
                # the tool got as far as this name (it stops at the first write error, so later names of the same archive may not be reached)
                cnt["names_reached|%s" % h["cls"]] = cnt.get("names_reached|%s" % h["cls"], 0) + 1
        if not ok_lead:
            r["inconc"].append("leading-benign-files-not-extracted")
            r["benign_note"] = "exit %s, stderr: %s" % (p.returncode, stderr[-240:])
        elif p.returncode == 0 and not ok_all:
            r["inconc"].append("exit-0-but-benign-file-missing-or-different")
            r["benign_note"] = "exit 0, files in out: %d" % in_out
        r["nontrivial"] = ok_lead
        for h in hostile:
            cnt["names_tried|%s" % h["cls"]] = cnt.get("names_tried|%s" % h["cls"], 0) + 1
            if ok_lead:
                r["classes"].add("%s|up%d|%s|%s|chain%d" % (h["prefix"], h["up"], h["sep"], mode, cfg["chain"]))
        cnt["runs|%s|chain%d|%s|threads-%s" % (mode, cfg["chain"], "explicit" if cfg["explicit"] else "whole", cfg["threads"] or "n/a")] = 1
        r["sample"] = {"args": [sh(x) for x in case["args"]], "hostile_names": [sh(h["name"]) for h in hostile], "classes": [h["cls"] for h in hostile],
                       "exit": p.returncode, "files_in_out": in_out, "write_class_calls": cnt.get("write_class_syscalls_checked", 0),
                       "outside_calls": [(sh(lex), ev["name"], "ok" if ev["ok"] else ev["errno"]) for ev, lex, _ in outside[:6]]}
        if r["viol"]:
            r["verdict"] = "viol"
        elif r["inconc"]:
            r["verdict"] = "inconc"
        return r
    finally:
        if not keep:
            shutil.rmtree(outer, ignore_errors=True)
            shutil.rmtree(logdir, ignore_errors=True)


def _outer_rx(outer):
    return re.compile(r"[\\/]*" + r"[\\/]+".join(re.escape(x) for x in outer.strip("/").split("/")))


def _short(s, rx=None):
    """For reports: the 300-char component and the run's own outer directory (in any separator spelling) are abbreviated."""
    if s is None:
        return None
    s = str(s).replace(LONG, "<L*300>")
    if rx is not None:
        s = rx.sub("<outer>", s)
    return s if len(s) < 700 else s[:700] + "..."


# ------------------------------------------------------------------------------------------------ main

def preflight():
    if not shutil.which("strace"):
        raise sup.Broken("strace not found")
    # the parser against known lines
    ev = parse_call('openat(AT_FDCWD</x/c\\303\\274>, "../o/\\303\\274,\\"a\\".txt", O_WRONLY|O_CREAT|O_TRUNC|O_CLOEXEC, 0666) = 3</x/o/f>', "/x/cwd")
    assert ev and ev["ok"] and ev["write"] and ev["targets"] == [("/x/c\u00fc", '../o/\u00fc,"a".txt')], ev
    ev = parse_call('mkdir("//a/b", 0777)     = -1 EEXIST (File exists)', "/x/cwd")
    assert ev and not ev["ok"] and ev["errno"] == "EEXIST" and ev["targets"] == [("/x/cwd", "//a/b")], ev
    ev = parse_call('renameat2(AT_FDCWD</w>, "a", 7</d,e>, "b", RENAME_NOREPLACE) = 0', "/w")
    assert ev and ev["targets"] == [("/w", "a"), ("/d,e", "b")], ev
    ev = parse_call('openat(AT_FDCWD</w>, "/etc/ld.so.cache", O_RDONLY|O_CLOEXEC) = 3</etc/ld.so.cache>', "/w")
    assert ev and not ev["write"], ev
    assert name_class("..\\x") == "dotdot-backslash" and name_class("../x") == "dotdot-slash" and name_class("\\\\v\\s\\x") == "unc" and name_class("C:\\x") == "drive"
    assert resolve("/a/b/cwd", "../out/../x")[0] == "/a/b/x"


def run(tier, seed, scratch, t0):
    preflight()
    cli = os.environ.get("VERIF_CLI")
    if cli:
        if not os.access(cli, os.X_OK):
            raise sup.Broken(f"VERIF_CLI={cli} is not executable")
        sup.log(f"[C11] using CLI binary from VERIF_CLI: {cli}")
    else:
        cli = sup.build_cli()
    if not under(os.path.realpath(scratch), os.path.join(sup.VERIF, "scratch")):
        raise sup.Broken(f"scratch directory {scratch} is not under {sup.VERIF}/scratch; refusing to run hostile extractions there")
    groups = plan(tier, seed)
    cfgs = configs()
    jobs = [(ai, g, c) for ai, g in enumerate(groups) for c in cfgs]
    sup.log(f"[C11] {sum(len(g) for g in groups)} names in {len(groups)} archives x {len(cfgs)} configurations = {len(jobs)} CLI runs ({time.time()-t0:.1f}s)")
    res = sup.Result(PROP)
    with ThreadPoolExecutor(max_workers=sup.NCPU) as ex:
        results = list(ex.map(lambda j: run_case(cli, j[0], j[1], j[2], scratch, seed), jobs))
    sample_keys = set()
    for r in results:
        absorb(res, r, tier, seed, sample_keys)
    if os.listdir(scratch):
        left = [x for x in os.listdir(scratch) if x != "logs"]
        if left:
            res.notes.append(f"scratch not empty after the runs: {left[:5]}")
    if res.counters.get("benign_verified", 0) == 0:
        raise sup.Broken("no benign file was extracted in any run: nothing was observed")
    res.add_counter("archives", len(groups))
    res.add_counter("names_planned", sum(len(g) for g in groups))
    extra = {"trace_set": TRACE, "max_dotdot_run": MAXUP,
             "name_classes": sorted({k.split("|", 1)[1] for k in res.counters if k.startswith("names_tried|")})}
    return sup.finish(res, tier, seed, "exploration", RULE, t0, assumptions=ASSUME, min_cases=100, extra_cov=extra)


def absorb(res, r, tier, seed, sample_keys):
    res.cases += 1
    for k, n in r["counters"].items():
        res.add_counter(k, n)
    rp = {"property": PROP, "tier": tier, "seed": int(seed), "archive": r["ai"], "config": r["cfg"]}
    for v in r["viol"]:
        res.add_violation(v["sig"], v["what"], v["detail"], rp)
    for why in r["inconc"]:
        res.inconclusive_reasons[why] = res.inconclusive_reasons.get(why, 0) + 1
        if why == "observers-disagree":
            res.notes.append(f"{r['tag']}: observers disagree: {r.get('disagree')}")
        elif why.startswith("strace-log"):
            res.notes.append(f"{r['tag']}: {r.get('bad')}")
        elif "benign" in why:
            res.notes.append(f"{r['tag']}: {why}: {r.get('benign_note')}")
    if r["verdict"] == "inconc" or "observers-disagree" in r["inconc"]:
        res.verdicts["inconc"] += 1
    if r["verdict"] == "viol":
        res.verdicts["viol"] += 1
    elif r["verdict"] == "held":
        res.verdicts["held"] += 1
    if r.get("nontrivial"):
        res.classes |= r["classes"]
    s = r.get("sample")
    if s:
        k = (r["cfg"]["preserve"], r["cfg"]["chain"], r["cfg"]["explicit"])
        if k not in sample_keys and len(res.samples) < 6:
            sample_keys.add(k)
            res.samples.append(s)


def replay(rp, scratch):
    """Re-run exactly the recorded (archive index, configuration) of the recorded tier and seed; keeps nothing."""
    r = rp["replay"]
    preflight()
    cli = os.environ.get("VERIF_CLI") or sup.build_cli()
    groups = plan(r["tier"], r["seed"])
    ai = r["archive"]
    if ai >= len(groups):
        print(f"REPLAY archive index {ai} not in the plan")
        return sup.EXIT_BROKEN
    out = run_case(cli, ai, groups[ai], r["config"], scratch, r["seed"])
    print(f"REPLAY archive={ai} config={json.dumps(r['config'])} exit={out.get('rc')} names={out.get('names', [])}")
    print(f"REPLAY sample={json.dumps(out.get('sample'), ensure_ascii=False)[:1500]}")
    found = False
    for v in out["viol"]:
        print(f"REPLAY violation sig={v['sig']} what={v['what'][:500]}")
        found = found or v["sig"] == rp.get("signature")
    for why in out["inconc"]:
        print(f"REPLAY inconclusive: {why}")
    if found:
        print(f"VIOLATION property={PROP} replay=(reproduced) signature={rp['signature']}")
        return sup.EXIT_VIOLATION
    if out["viol"]:
        print(f"VIOLATION property={PROP} replay=(different signature) signature={out['viol'][0]['sig']}")
        return sup.EXIT_VIOLATION
    print("REPLAY did not reproduce the recorded signature")
    return sup.EXIT_HELD
