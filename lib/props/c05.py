"""C05 — parsers are total: bad input gives an error, never a crash, hang or huge allocation (DESIGN.md §6 C05).

Workers (harness/<pkg>/src/bin/<bin>.rs) are listed in WORKERS and run one after another, each sharded over the 16
cores by sup.run_workers; all journals are aggregated into one evidence file with per-format counters.

To add a worker: append (pkg, bin, extra_args) to WORKERS.  To add MPQ seed archives from an external generator:
drop them into a directory and set VERIF_C05_MPQ_SEEDS=<dir> (passed to c05_mpq as --seeds-dir), or extend
`external_seed_archives` / `builder_configs` in harness/vh-mpq/src/bin/c05_mpq.rs.

Inside a worker every batch of mutants runs in a forked child (engine: harness/vh-formats/src/c05_common.rs): an abort
(refused allocation, stack overflow, abort in no-unwind context) kills only that child, the worker records the exact
(mutant, entry point, site) and continues behind it; a silent child is killed after 6 s and the single mutant re-run
alone with a 4x budget before it counts as a hang. sup.run_workers' own crash attribution and watchdog (with its
confirmation run) stay in force as the outer net for anything that takes the worker itself down.
"""
import json
import os
import re
import shutil
import subprocess
import time

import sup

# (cargo package, bin name, extra worker args)
WORKERS = [
    ("vh-formats", "c05_formats", []),   # m2, skin, anim, adt, wmo-root, wmo-group, blp, dbc, wdt, wdl
    ("vh-mpq", "c05_mpq", []),           # mpq (builder-written seeds + --seeds-dir), ptch
]
PKG_OF_BIN = {b: p for p, b, _ in WORKERS}

FORMATS = ["mpq", "mpq-raw", "mpq-special", "ptch", "m2", "skin", "anim", "adt", "wmo-root", "wmo-group", "blp", "dbc", "wdt", "wdl"]

RULE = ("seeds = valid files of every format written by the library's own writers/builders (plus the BLP fixtures and a few hand-assembled chunk streams / "
        "DBC tables), listed per format under extras.seeds|<format>. Mutations of each seed: (1) every prefix (files <= 4 KiB) or the first 512 prefixes + 256 "
        "spread + chunk boundaries; (2) every 2/4-byte aligned offset of header / table / chunk-header / count / offset regions (located by an independent "
        "walker; MPQ hash/block/HET/BET fields are patched in plaintext and re-encrypted) x {0,1,2^31-1,2^31,2^32-1,filesize-1,filesize,filesize+1,0xFFFF,0x8000} "
        "(+ 64-bit boundary values for MPQ header quads); (3) chunk delete/duplicate/reorder/size+-1/size=0xFFFFFFFF/... for chunked formats; (4) seeded havoc "
        "(2 000 per format quick, 50 000 thorough; MPQ x4). Every mutant is fed to exactly the public entry points of the property's observe_at list, each driven "
        "to completion, in a release build, under M1 panic trap, M2 abort/stack-overflow capture, M3 heap monitor (one request >= 256 MiB or live growth >= 512 MiB "
        "for inputs <= 4 MiB; requests >= 256 MiB are refused so the machine never pays for them) and M4 time (soft 2 s note; 6 s kill + 24 s confirmation = hang). "
        "One case = one batch of <= 400 mutants of one (format, seed, mutation class); distinct = distinct (format, seed, mutation class) triples executed. "
        "A violation's signature is (kind | format family | in-repo site [+ normalised panic message]); the entry point, seed and the single mutated field are in the witness.")
ASSUME = [
    "release profile (what users run): debug-only arithmetic-overflow panics are not counted",
    "a heap request is judged at the allocator: try_reserve-style requests that the code would survive are still 'requested'",
    "time budgets are wall-clock on a shared machine: a first expiry that does not repeat alone with a 4x budget is reported as inconclusive, never as a hang",
    "seeds are produced by the library's own writers where they exist; where a writer cannot emit a section the seed is hand-assembled from the format description",
]


def _per_format(res):
    out = {}
    for f in FORMATS:
        pre = f + "|"
        c = {k[len(pre):]: v for k, v in res.counters.items() if k.startswith(pre)}
        if not c:
            continue
        ex = res.extras
        variants = {k.split("|", 2)[2]: v for k, v in ex.items() if k.startswith(f"error_variants|{f}|")}
        out[f] = {
            "seeds": ex.get(f"seeds|{f}", []),
            "seeds_valid_unmutated": f"{c.get('seeds_identity_all_ok', 0)}/{c.get('seeds_identity_run', 0)}",
            "mutants_by_kind": {k.split("|", 1)[1]: v for k, v in c.items() if k.startswith("mutants|")},
            "mutants_executed": c.get("mutants_executed", 0),
            "entry_point_calls": {k.split("|", 1)[1]: v for k, v in c.items() if k.startswith("calls|")},
            "outcomes": {k.split("|", 1)[1]: v for k, v in c.items() if k.startswith("outcome|")},
            "distinct_error_variants": {e: len(v) for e, v in variants.items()},
            "error_variants": variants,
            "max_single_request_bytes": ex.get(f"max_single_request|{f}", 0),
            "child_restarts_after_abort": c.get("child_restarts", 0),
            "slow_calls_over_2s": c.get("slow_calls", 0),
        }
    return out


def _reference_mpq_seeds(scratch, seed):
    """MPQ flavours the builder cannot emit, written by the independent writer lib/refmpq.py: deleted markers in probe
    chains, all-ones never-used entries, junk / user-data prefix before the header, V2 header, uncompressed multi-sector
    files without sector table, per-sector raw-if-not-smaller, and PATCH_FILE-flagged entries."""
    import random
    import struct
    import refmpq
    d = os.path.join(scratch, "mpqseeds")
    os.makedirs(d, exist_ok=True)
    rng = random.Random(1000 + seed)
    k = 0
    for version in (1, 2):
        for (prefix, user_data) in ((0, False), (0x200, False), (0x400, True)):
            for method in (0, 0x02, 0x10):
                ss = 512
                files = []
                for i, n in enumerate((0, 5, 511, 513, 1600)):
                    data = bytes(rng.getrandbits(8) for _ in range(n // 2)) + b"A" * (n - n // 2)
                    files.append(refmpq.RefFile("Seed\\File%d.bin" % i if i % 2 else "file%d.txt" % i, data, method, encrypt=(i == 3), fix_key=(i == 3 and method == 0)))
                # a PATCH_FILE entry: TPatchInfo (length 28, flags, data size, md5) followed by a tiny COPY patch body
                body = b"PTCH" + struct.pack("<III", 12 + 24 + 12 + 4, 0, 4) + b"MD5_" + struct.pack("<I", 40) + bytes(32) + b"XFRM" + struct.pack("<I", 12 + 4) + b"COPY" + b"abcd"
                raw = struct.pack("<III", 28, 0, len(body)) + bytes(16) + body
                files.append(refmpq.RefFile("Seed\\patched.bin", b"abcd", 0, single_unit=True, flags_extra=refmpq.FLAG_PATCH_FILE, raw_stored=raw))
                arc, _ = refmpq.write_archive(files, version=version, shift=0, prefix=prefix, user_data=user_data, deleted_probes=3 if k % 2 else 0, listfile=True)
                with open(os.path.join(d, "ref-v%d-p%x-m%02x-%d.mpq" % (version, prefix, method, k)), "wb") as f:
                    f.write(arc)
                if user_data and method == 0x02:
                    # the user-data header's two fields at their boundary values, alone and together (after C05-r7m1): the
                    # mutation plan changes one field at a time, pairs are reached from seeds that already carry one of them
                    for tag, size, ptr in (("ud0", 0, None), ("udstale", None, 0x200), ("ud0stale", 0, 0x200), ("ud0self", 0, 0), ("udbig-stale", 0xFFFFFFF0, 0x600)):
                        v = bytearray(arc)
                        if size is not None:
                            v[4:8] = struct.pack("<I", size)
                        if ptr is not None:
                            v[8:12] = struct.pack("<I", ptr)
                        with open(os.path.join(d, "ref-v%d-p%x-m%02x-%d-%s.mpq" % (version, prefix, method, k, tag)), "wb") as f:
                            f.write(v)
                k += 1
    return d


# --------------------------------------------------------------------------------------------- stage F (thorough) ----
# Coverage-guided input generation: libFuzzer + AddressSanitizer over the *same drivers* (harness/fuzz/fuzz_targets/fz.rs),
# one fuzzing process group per format, started from the deterministic plan's seeds. The fuzzer judges nothing: everything it
# keeps (new-coverage inputs, crash / oom / timeout / leak artifacts) is afterwards replayed by the native workers through
# `--blobs-dir`, i.e. under the property's own monitors and signatures. Artifacts that the native replay does not flag are
# re-run once under the fuzz binary: an AddressSanitizer memory-error report is a violation of its own, anything else
# (stack depth or time that only the ~3x slower instrumented build runs out of) is counted and not judged.

FUZZ_FORMATS = ["mpq", "mpq-raw", "mpq-special", "ptch", "m2", "skin", "anim", "adt", "wmo-root", "wmo-group", "blp", "dbc", "wdt", "wdl"]
FUZZ_BIN_OF = {"mpq": "c05_mpq", "mpq-special": "c05_mpq", "ptch": "c05_mpq"}
FUZZ_TARGET_DIR = sup.TARGET_BASE + "-fuzz"


def _build_fuzz():
    fz_dir = os.path.join(sup.HARNESS, "fuzz")
    try:
        shutil.copyfile(os.path.join(sup.REPO, "Cargo.lock"), os.path.join(fz_dir, "Cargo.lock"))
    except OSError:
        pass
    env = dict(os.environ, CARGO_NET_OFFLINE="true", CARGO_TARGET_DIR=FUZZ_TARGET_DIR, CARGO_TERM_COLOR="never")
    env.pop("RUSTFLAGS", None)
    t = time.time()
    p = subprocess.run(["cargo", "+nightly", "fuzz", "build", "-O", "--fuzz-dir", fz_dir, "fz"], cwd=fz_dir, env=env,
                       stdout=subprocess.PIPE, stderr=subprocess.STDOUT, text=True)
    out = os.path.join(FUZZ_TARGET_DIR, "x86_64-unknown-linux-gnu", "release", "fz")
    if p.returncode != 0 or not os.path.exists(out):
        return None, "\n".join(p.stdout.splitlines()[-25:])
    sup.log(f"[build] harness/fuzz fz (libFuzzer+ASan) {time.time()-t:.1f}s")
    return out, ""


_STAT = re.compile(r"cov: (\d+) ft: (\d+) corp: (\d+)")


def _fuzz_stage(res, tier, seed, scratch, secs, bins):
    fz, why = _build_fuzz()
    if not fz:
        res.add_inconclusive("fuzz-stage-not-built")
        res.notes.append("fuzz stage: build failed: " + why[-600:])
        return {"built": False}
    root = os.path.join(scratch, "fz")
    corpus, arts, tmp, blobs = (os.path.join(root, d) for d in ("corpus", "artifacts", "tmp", "blobs"))
    for d in (corpus, arts, tmp, blobs):
        os.makedirs(d, exist_ok=True)
    # initial corpus = the seeds of the deterministic plan (incl. the reference-written MPQ flavours)
    for b, path in bins.items():
        args = [path, "--dump-seeds", corpus, "--scratch", os.path.join(root, "seedtmp"), "--out", os.devnull, "--tier", tier]
        if b == "c05_mpq" and bins.get("_seeds_dir"):
            args += ["--seeds-dir", bins["_seeds_dir"]]
        if not b.startswith("_"):
            subprocess.run(args, stdout=subprocess.DEVNULL, stderr=subprocess.DEVNULL, timeout=600)
    seeds_before = {}
    procs = []
    # 16 cores: every format gets one fuzzing job; the three families with the most code behind them get more
    jobs = {"mpq": 3, "m2": 2, "adt": 2}
    for f in FUZZ_FORMATS:
        cd = os.path.join(corpus, f)
        os.makedirs(cd, exist_ok=True)
        seeds_before[f] = set(os.listdir(cd))
        ad = os.path.join(arts, f) + os.sep
        os.makedirs(ad, exist_ok=True)
        td = os.path.join(tmp, f)
        os.makedirs(td, exist_ok=True)
        env = dict(os.environ, VH_FUZZ_FORMAT=f, VH_FUZZ_SCRATCH=td, TMPDIR=td, RUST_BACKTRACE="0",
                   ASAN_OPTIONS="detect_odr_violation=0:detect_leaks=0:allocator_may_return_null=0:max_allocation_size_mb=4096")
        cmd = [fz, cd, f"-max_total_time={secs}", "-timeout=10", "-rss_limit_mb=4096", "-malloc_limit_mb=256", "-max_len=262144",
               f"-seed={1000 + int(seed)}", f"-fork={jobs.get(f, 1)}", "-ignore_crashes=1", "-ignore_timeouts=1", "-ignore_ooms=1",
               f"-artifact_prefix={ad}", "-print_final_stats=1"]
        lf = open(os.path.join(root, f"log-{f}.txt"), "w")
        procs.append((f, subprocess.Popen(cmd, cwd=td, env=env, stdout=lf, stderr=subprocess.STDOUT), lf))
    deadline = time.time() + secs + 300
    for f, p, lf in procs:
        try:
            p.wait(timeout=max(5, deadline - time.time()))
        except subprocess.TimeoutExpired:
            p.kill()
            res.notes.append(f"fuzz stage: {f} fuzzer did not stop by itself; killed")
        lf.close()
    shutil.rmtree(tmp, ignore_errors=True)
    # what the fuzzers did (evidence), and the inputs handed to the native replay
    info = {"built": True, "seconds_per_format": secs, "engine": "libFuzzer (cargo-fuzz 0.13, -O) + AddressSanitizer, fork mode, malloc_limit 256 MiB, timeout 10 s",
            "per_format": {}}
    MAXB = 30000
    for f in FUZZ_FORMATS:
        log = open(os.path.join(root, f"log-{f}.txt"), errors="replace").read()
        st = _STAT.findall(log)
        execs = [int(x) for x in re.findall(r"^#(\d+):? ", log, re.M)]
        cd, ad = os.path.join(corpus, f), os.path.join(arts, f)
        new_units = sorted(set(os.listdir(cd)) - seeds_before[f])
        art = sorted(os.listdir(ad))
        bd = os.path.join(blobs, f)
        os.makedirs(bd, exist_ok=True)
        for a in art:
            shutil.copyfile(os.path.join(ad, a), os.path.join(bd, "art-" + a))
        for u in new_units[:MAXB]:
            shutil.copyfile(os.path.join(cd, u), os.path.join(bd, "cov-" + u))
        kinds = {}
        for a in art:
            kinds[a.split("-")[0]] = kinds.get(a.split("-")[0], 0) + 1
        info["per_format"][f] = {"executions": max(execs) if execs else 0, "coverage_edges": int(st[-1][0]) if st else 0, "features": int(st[-1][1]) if st else 0,
                                 "seed_inputs": len(seeds_before[f]), "new_coverage_inputs": len(new_units), "artifacts": kinds,
                                 "replayed_natively": len(art) + min(len(new_units), MAXB)}
        res.add_counter("fuzz|executions", info["per_format"][f]["executions"])
        res.add_counter("fuzz|new_coverage_inputs", len(new_units))
        res.add_counter("fuzz|artifacts", len(art))
        if not execs:
            res.add_inconclusive(f"fuzz-stage-no-executions:{f}")
            res.notes.append(f"fuzz stage {f}: " + log[-300:])
    # native replay of everything kept, under the property's monitors
    before = set(res.violations)
    for b, path in bins.items():
        if b.startswith("_"):
            continue
        sup.run_workers(res, path, ["--blobs-dir", blobs, "--blobs-only", "1"], tier, seed, scratch, nshards=sup.NCPU, case_timeout=420.0,
                        crash_is_violation=True, total_timeout=2 * 3600.0, label=b + "-fuzz-")
    # replay files of fuzz-stage violations name the input itself (the blobs directory does not outlive the run)
    for sig, w in res.violations.items():
        d = w.get("detail") or {}
        if isinstance(d, dict) and "mutation" not in d and isinstance(d.get("d"), dict):
            d = d["d"]                      # abort-class violations carry the mutant one level down
        m = d.get("mutation") if isinstance(d, dict) else None
        if isinstance(m, dict) and m.get("kind") == "blob" and isinstance(w.get("replay"), dict):
            r = dict(w["replay"])
            r["args"] = [a for a in (r.get("args") or []) if a not in ("--blobs-dir", blobs, "--blobs-only", "1")]
            r["witness"] = {"seed": d.get("seed"), "mutation": m}
            w["replay"] = r
    info["new_signatures_from_fuzz_inputs"] = sorted(set(res.violations) - before)
    # artifacts the native replay did not flag: AddressSanitizer memory errors are violations of their own
    asan = 0
    unrepro = {}
    for f in FUZZ_FORMATS:
        ad = os.path.join(arts, f)
        for a in sorted(os.listdir(ad))[:200]:
            env = dict(os.environ, VH_FUZZ_FORMAT=f, VH_FUZZ_SCRATCH=os.path.join(root, "tmp2"), RUST_BACKTRACE="0",
                       ASAN_OPTIONS="detect_odr_violation=0:detect_leaks=0:max_allocation_size_mb=4096")
            os.makedirs(env["VH_FUZZ_SCRATCH"], exist_ok=True)
            try:
                p = subprocess.run([fz, os.path.join(ad, a), "-timeout=40", "-rss_limit_mb=4096", "-malloc_limit_mb=256"], env=env, cwd=root,
                                   stdout=subprocess.PIPE, stderr=subprocess.STDOUT, text=True, errors="replace", timeout=120)
                out = p.stdout
            except subprocess.TimeoutExpired:
                out = ""
            m = re.search(r"ERROR: AddressSanitizer: ([a-zA-Z0-9_-]+)", out)
            if m and m.group(1) not in ("allocation-size-too-big", "out-of-memory", "requested", "stack-overflow", "allocator"):
                frames = re.findall(r"#\d+ 0x[0-9a-f]+ in (\S+) (/repo/\S+?):\d+", out)
                site = (frames[0][1].replace("/repo/", "") + ":" + frames[0][0].split("::")[-1]) if frames else "?"
                data = open(os.path.join(ad, a), "rb").read()
                res.add_violation(f"asan|{f}|{m.group(1)}|{site}", f"AddressSanitizer {m.group(1)} in the {f} driver at {site}",
                                  {"format": f, "artifact": a, "report": out[-2500:], "mutation": {"kind": "blob", "name": a, "len": len(data), "hex": data.hex()}}, None)
                asan += 1
            else:
                k = a.split("-")[0]
                unrepro[f"{f}|{k}"] = unrepro.get(f"{f}|{k}", 0) + 1
    shutil.rmtree(os.path.join(root, "tmp2"), ignore_errors=True)
    info["asan_memory_error_reports"] = asan
    info["artifacts_by_format_and_kind"] = unrepro
    return info


def run(tier, seed, scratch, t0):
    res = sup.Result("C05")
    seeds_dir = os.environ.get("VERIF_C05_MPQ_SEEDS") or _reference_mpq_seeds(scratch, seed)
    for pkg, binname, extra in WORKERS:
        binpath = sup.build(pkg, binname)
        args = list(extra)
        if binname == "c05_mpq" and seeds_dir:
            args += ["--seeds-dir", seeds_dir]
        # case_timeout: a batch may legitimately contain a handful of 6 s + 24 s hang confirmations
        sup.run_workers(res, binpath, args, tier, seed, scratch, nshards=sup.NCPU, case_timeout=420.0,
                        crash_is_violation=True, total_timeout=3 * 3600.0, label=binname + "-")
    fuzz_info = None
    secs = int(os.environ.get("VERIF_C05_FUZZ_SECS", "240" if tier == "thorough" else "0") or 0)
    if secs > 0:
        bins = {b: os.path.join(sup.TARGET_BASE, "release", b) for _, b, _ in WORKERS}
        bins["_seeds_dir"] = seeds_dir
        fuzz_info = _fuzz_stage(res, tier, seed, scratch, secs, bins)
    per_format = _per_format(res)
    missing = [f for f in FORMATS if f not in per_format or not per_format[f]["mutants_executed"]]
    if missing:
        res.notes.append(f"formats that executed no mutant: {missing}")
        res.add_inconclusive("format-without-mutants:" + ",".join(missing))
    if res.extras.get("seed_problems"):
        res.notes.append(f"seed writers failed: {res.extras['seed_problems']}")
        res.add_inconclusive("seed-writer-failed")
    # the per-format view replaces the raw extras in the evidence (same data, readable)
    for k in [k for k in res.extras if k.split("|")[0] in ("seeds", "error_variants", "max_single_request", "slow_calls")]:
        if not k.startswith("slow_calls"):
            res.extras.pop(k)
    extra_cov = {
        "per_format": per_format,
        "workers": [f"{p}/{b}" for p, b, _ in WORKERS],
        "mutants_executed": res.counters.get("mutants_executed", 0),
        "entry_point_calls": res.counters.get("entry_point_calls", 0),
    }
    if fuzz_info is not None:
        extra_cov["fuzz_stage"] = fuzz_info
    return sup.finish(res, tier, seed, "exploration", RULE, t0, assumptions=ASSUME, min_cases=100, extra_cov=extra_cov)


def replay(rp, scratch):
    """Replays either a run-time replay file (case index of the recorded run) or a committed witness file, which names
    the mutant by (seed label, mutation) so that it stays valid when the plan changes (new seeds, new batches)."""
    r = dict(rp["replay"])
    w = r.pop("witness", None)
    if w:
        mj = json.dumps(w["mutation"])
        if len(mj) > 60000:
            mf = os.path.join(scratch, "wmut.json")
            with open(mf, "w") as f:
                f.write(mj)
            r["args"] = list(r.get("args") or []) + ["--wseed", w["seed"], "--wmut-file", mf]
        else:
            r["args"] = list(r.get("args") or []) + ["--wseed", w["seed"], "--wmut", mj]
        r["only"] = 0
    rp = dict(rp)
    rp["replay"] = r
    return sup.generic_replay(rp, scratch, PKG_OF_BIN.get(r["bin"], "vh-formats"))
