"""C05 — parsers are total: bad input gives an error, never a crash, hang or huge allocation (DESIGN.md §6 C05).

Workers (harness/<pkg>/src/bin/<bin>.rs) are listed in WORKERS and run one after another, each sharded over the 16
cores by sup.run_workers; all journals are aggregated into one evidence file with per-format counters.

To add a worker: append (pkg, bin, extra_args) to WORKERS.  To add MPQ seed archives from an external generator:
drop them into a directory and set VERIF_C05_MPQ_SEEDS=<dir> (passed to c05_mpq as --seeds-dir), or extend
`external_seed_archives` / `builder_configs` in harness/vh-mpq/src/bin/c05_mpq.rs.

Inside a worker every batch of mutants runs in a forked child (engine: harness/vh-formats/src/c05_common.rs): an abort
(refused allocation, stack overflow, abort in no-unwind context) kills only that child, the worker records the exact
(mutant, entry point, site) and continues behind it; a silent child is killed after 6 s and the single mutant re-run
alone with a 4x budget before it counts as a hang. sup.run_workers' own crash attribution and watchdog (with its
confirmation run) stay in force as the outer net for anything that takes the worker itself down.
"""
import json
import os

import sup

# (cargo package, bin name, extra worker args)
WORKERS = [
    ("vh-formats", "c05_formats", []),   # m2, skin, anim, adt, wmo-root, wmo-group, blp, dbc, wdt, wdl
    ("vh-mpq", "c05_mpq", []),           # mpq (builder-written seeds + --seeds-dir), ptch
]
PKG_OF_BIN = {b: p for p, b, _ in WORKERS}

FORMATS = ["mpq", "ptch", "m2", "skin", "anim", "adt", "wmo-root", "wmo-group", "blp", "dbc", "wdt", "wdl"]

RULE = ("seeds = valid files of every format written by the library's own writers/builders (plus the BLP fixtures and a few hand-assembled chunk streams / "
        "DBC tables), listed per format under extras.seeds|<format>. Mutations of each seed: (1) every prefix (files <= 4 KiB) or the first 512 prefixes + 256 "
        "spread + chunk boundaries; (2) every 2/4-byte aligned offset of header / table / chunk-header / count / offset regions (located by an independent "
        "walker; MPQ hash/block/HET/BET fields are patched in plaintext and re-encrypted) x {0,1,2^31-1,2^31,2^32-1,filesize-1,filesize,filesize+1,0xFFFF,0x8000} "
        "(+ 64-bit boundary values for MPQ header quads); (3) chunk delete/duplicate/reorder/size+-1/size=0xFFFFFFFF/... for chunked formats; (4) seeded havoc "
        "(2 000 per format quick, 50 000 thorough; MPQ x4). Every mutant is fed to exactly the public entry points of the property's observe_at list, each driven "
        "to completion, in a release build, under M1 panic trap, M2 abort/stack-overflow capture, M3 heap monitor (one request >= 256 MiB or live growth >= 512 MiB "
        "for inputs <= 4 MiB; requests >= 256 MiB are refused so the machine never pays for them) and M4 time (soft 2 s note; 6 s kill + 24 s confirmation = hang). "
        "One case = one batch of <= 400 mutants of one (format, seed, mutation class); distinct = distinct (format, seed, mutation class) triples executed. "
        "A violation's signature is (kind | format family | in-repo site [+ normalised panic message]); the entry point, seed and the single mutated field are in the witness.")
ASSUME = [
    "release profile (what users run): debug-only arithmetic-overflow panics are not counted",
    "a heap request is judged at the allocator: try_reserve-style requests that the code would survive are still 'requested'",
    "time budgets are wall-clock on a shared machine: a first expiry that does not repeat alone with a 4x budget is reported as inconclusive, never as a hang",
    "seeds are produced by the library's own writers where they exist; where a writer cannot emit a section the seed is hand-assembled from the format description",
]


def _per_format(res):
    out = {}
    for f in FORMATS:
        pre = f + "|"
        c = {k[len(pre):]: v for k, v in res.counters.items() if k.startswith(pre)}
        if not c:
            continue
        ex = res.extras
        variants = {k.split("|", 2)[2]: v for k, v in ex.items() if k.startswith(f"error_variants|{f}|")}
        out[f] = {
            "seeds": ex.get(f"seeds|{f}", []),
            "seeds_valid_unmutated": f"{c.get('seeds_identity_all_ok', 0)}/{c.get('seeds_identity_run', 0)}",
            "mutants_by_kind": {k.split("|", 1)[1]: v for k, v in c.items() if k.startswith("mutants|")},
            "mutants_executed": c.get("mutants_executed", 0),
            "entry_point_calls": {k.split("|", 1)[1]: v for k, v in c.items() if k.startswith("calls|")},
            "outcomes": {k.split("|", 1)[1]: v for k, v in c.items() if k.startswith("outcome|")},
            "distinct_error_variants": {e: len(v) for e, v in variants.items()},
            "error_variants": variants,
            "max_single_request_bytes": ex.get(f"max_single_request|{f}", 0),
            "child_restarts_after_abort": c.get("child_restarts", 0),
            "slow_calls_over_2s": c.get("slow_calls", 0),
        }
    return out


def _reference_mpq_seeds(scratch, seed):
    """MPQ flavours the builder cannot emit, written by the independent writer lib/refmpq.py: deleted markers in probe
    chains, all-ones never-used entries, junk / user-data prefix before the header, V2 header, uncompressed multi-sector
    files without sector table, per-sector raw-if-not-smaller, and PATCH_FILE-flagged entries."""
    import random
    import struct
    import refmpq
    d = os.path.join(scratch, "mpqseeds")
    os.makedirs(d, exist_ok=True)
    rng = random.Random(1000 + seed)
    k = 0
    for version in (1, 2):
        for (prefix, user_data) in ((0, False), (0x200, False), (0x400, True)):
            for method in (0, 0x02, 0x10):
                ss = 512
                files = []
                for i, n in enumerate((0, 5, 511, 513, 1600)):
                    data = bytes(rng.getrandbits(8) for _ in range(n // 2)) + b"A" * (n - n // 2)
                    files.append(refmpq.RefFile("Seed\\File%d.bin" % i if i % 2 else "file%d.txt" % i, data, method, encrypt=(i == 3), fix_key=(i == 3 and method == 0)))
                # a PATCH_FILE entry: TPatchInfo (length 28, flags, data size, md5) followed by a tiny COPY patch body
                body = b"PTCH" + struct.pack("<III", 12 + 24 + 12 + 4, 0, 4) + b"MD5_" + struct.pack("<I", 40) + bytes(32) + b"XFRM" + struct.pack("<I", 12 + 4) + b"COPY" + b"abcd"
                raw = struct.pack("<III", 28, 0, len(body)) + bytes(16) + body
                files.append(refmpq.RefFile("Seed\\patched.bin", b"abcd", 0, single_unit=True, flags_extra=refmpq.FLAG_PATCH_FILE, raw_stored=raw))
                arc, _ = refmpq.write_archive(files, version=version, shift=0, prefix=prefix, user_data=user_data, deleted_probes=3 if k % 2 else 0, listfile=True)
                with open(os.path.join(d, "ref-v%d-p%x-m%02x-%d.mpq" % (version, prefix, method, k)), "wb") as f:
                    f.write(arc)
                k += 1
    return d


def run(tier, seed, scratch, t0):
    res = sup.Result("C05")
    seeds_dir = os.environ.get("VERIF_C05_MPQ_SEEDS") or _reference_mpq_seeds(scratch, seed)
    for pkg, binname, extra in WORKERS:
        binpath = sup.build(pkg, binname)
        args = list(extra)
        if binname == "c05_mpq" and seeds_dir:
            args += ["--seeds-dir", seeds_dir]
        # case_timeout: a batch may legitimately contain a handful of 6 s + 24 s hang confirmations
        sup.run_workers(res, binpath, args, tier, seed, scratch, nshards=sup.NCPU, case_timeout=420.0,
                        crash_is_violation=True, total_timeout=3 * 3600.0, label=binname + "-")
    per_format = _per_format(res)
    missing = [f for f in FORMATS if f not in per_format or not per_format[f]["mutants_executed"]]
    if missing:
        res.notes.append(f"formats that executed no mutant: {missing}")
        res.add_inconclusive("format-without-mutants:" + ",".join(missing))
    if res.extras.get("seed_problems"):
        res.notes.append(f"seed writers failed: {res.extras['seed_problems']}")
        res.add_inconclusive("seed-writer-failed")
    # the per-format view replaces the raw extras in the evidence (same data, readable)
    for k in [k for k in res.extras if k.split("|")[0] in ("seeds", "error_variants", "max_single_request", "slow_calls")]:
        if not k.startswith("slow_calls"):
            res.extras.pop(k)
    extra_cov = {
        "per_format": per_format,
        "workers": [f"{p}/{b}" for p, b, _ in WORKERS],
        "mutants_executed": res.counters.get("mutants_executed", 0),
        "entry_point_calls": res.counters.get("entry_point_calls", 0),
    }
    return sup.finish(res, tier, seed, "exploration", RULE, t0, assumptions=ASSUME, min_cases=100, extra_cov=extra_cov)


def replay(rp, scratch):
    """Replays either a run-time replay file (case index of the recorded run) or a committed witness file, which names
    the mutant by (seed label, mutation) so that it stays valid when the plan changes (new seeds, new batches)."""
    r = dict(rp["replay"])
    w = r.pop("witness", None)
    if w:
        r["args"] = list(r.get("args") or []) + ["--wseed", w["seed"], "--wmut", json.dumps(w["mutation"])]
        r["only"] = 0
    rp = dict(rp)
    rp["replay"] = r
    return sup.generic_replay(rp, scratch, PKG_OF_BIN.get(r["bin"], "vh-formats"))
