"""C07 — rebuilding an archive preserves its file set and contents (DESIGN.md §6 C07)."""
import sup

RULE = ("one case = (source archive from the C01 generator: V1-V4 x {none,zlib,bzip2} x plain/encrypted/fix-key/mixed x listfile x attributes x sector shift, with a zero-length "
        "file and multi-sector files) x rebuild options (target preserve/V1..V4, compression override, sector-size override, verify, skip_encrypted, list_only). Oracle: independent "
        "re-read of source and target with Archive: every listed, readable, non-excluded source file is bit-identical in the target; the target lists nothing new; excluded files "
        "are absent; summary counts are consistent (no wrap, extracted + skipped = source, extracted covers the preserved set); compare_archives reports no content difference. "
        "distinct = distinct (source class, option class) pairs whose rebuild returned Ok.")
ASSUME = ["a rebuild that returns Err is allowed by the statement and tallied (rebuild_err|...) — it is not coverage",
          "sources without (listfile) list nothing: only the summary arithmetic is checked for them",
          "contents stay far below the 1000:1 ratio at which the bomb heuristics refuse data (C03's known finding)"]


def run(tier, seed, scratch, t0):
    return sup.simple_check("C07", "vh-mpq", "c07", tier, seed, scratch, t0, "exploration", RULE, ASSUME,
                            nshards=16, case_timeout=180, min_cases=100)


def replay(rp, scratch):
    return sup.generic_replay(rp, scratch, "vh-mpq")
