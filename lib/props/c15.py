"""C15 — WMO root and group files survive write -> parse (DESIGN.md §6 C15)."""
import sup

RULE = ("one case = one generated WMO root (first half of the index space) or group (second half), written with WmoWriter for each of the eleven versions "
        "Classic, Tbc, Wotlk, Cataclysm, Mop (MVER 17) and Wod, Legion, Bfa, Shadowlands, Dragonflight, WarWithin (the crate's MVER 18..23) and then converted over "
        "(from, to) pairs: all 25 among Classic..Mop, of the 96 pairs that involve a later version 12 per case in quick (rotating with the case index), all in thorough. Root: textures, materials (texture offsets into MOTX, "
        "one third pointing into the middle of a string), group infos + names, portals + vertices, portal references, visibility lists, lights, doodad "
        "definitions, doodad sets, skybox, header flags / ambient colour / bounds; group: vertices, normals, texture coordinates, indices, colours, "
        "batches, BSP nodes, liquid, doodad references, header. Every list is independently empty / one element / many (cases 0,1,2 are the uniform "
        "patterns); behind the regular index space come boundary-size cases: one list at a time (9 root lists, 8 flat group lists) with exactly 4096, 4097 and a random "
        "4098..5597 elements (the length up to which the parsers pre-allocate; pattern letter H4096 / H4097 / H>4097; thorough: 5 more random lengths per list), "
        "the other lists random; names come from a pool with shared prefixes and suffix relations; floats include +-0, subnormal, +-inf and NaN payloads (compared "
        "bitwise). Oracles per version: (c) independent chunk walker (4-byte magic reversed on disk, u32 size): chunks tile the file, MOHD counts == "
        "record counts of MOMT/MOGI/MOPT/MOLT/MODN/MODD/MODS, MOTX/MOGN/MODN offsets resolve to the intended strings, MOGP size == measured size, "
        "sub-chunks tile MOGP and decode (format layouts) to the model's lists; (a) WmoParser::parse_root and parse_wmo projections == model projection, "
        "texture_offset_index_map maps byte offsets to indices, WmoGroupParser::parse_group called; (b) write(parse(write(m))) compared chunk by chunk "
        "with write(m); (d) convert_root / convert_group result == the same content built for the target version (projection and bytes). "
        "(e) the other readers: parse_wmo_with_metadata and root_parser::parse_root_file (on the discovery of discover_wmo_chunks) read every field as parse_wmo did, "
        "discover_wmo_chunks / the metadata list exactly the (id, offset, size) triples the walker found and report a clean file (roots and groups). "
        "(f) editor sessions on every root (version = case index mod 11): up to two generated groups loaded, 1..16 operations out of add/remove material, group, doodad, "
        "doodad set, texture, add_vertex / remove_vertex, recalculate_group_bounding_box / recalculate_global_bounding_box and edits through root_mut, material_mut, "
        "texture_mut, group_mut (refused operations in between), then save_root + save_group: list lengths == tally of accepted operations, vertex list after "
        "add/remove == list before +/- that vertex, MOHD counts == records in the file, MOHD bounds == the session's bounds, WmoParser(save_root) == the session's "
        "root and parse_wmo(save_group) == the session's group (item by item). "
        "Signature = clause|item|trigger predicate|version set ('all' = every version on which that comparison was made; 'v18+' = every checked version from Wod on). "
        "distinct = distinct (kind, list-emptiness pattern, predicate values) among executed cases; every executed case is non-trivial "
        "(at least 5 objects written and walked).")

ASSUME = [
    "names are non-empty printable ASCII without NUL (both parsers drop empty strings from MOTX/MOGN/MODN and the legacy parser reads bytes as Latin-1); doodad-set names <= 19 bytes",
    "visibility lists never contain 0xFFFF (the crate's own list terminator)",
    "flag words are generated inside the bits the crate's bitflags types define (the parsers truncate unknown bits)",
    "a skybox is expected to read back only for target versions >= Wotlk (WmoFeature::SkyboxReferences); HAS_SKYBOX is expected to follow skybox presence",
    "conversions start from an object that is valid for the source version by the crate's own feature model (no skybox before Wotlk, no SHADOW_BATCH material flags before Mop, "
    "no MOUNT_ALLOWED group flag before Legion, no scene-graph/motion/exterior-BSP group flags before Cataclysm); 'representable in both' = valid for min(from, to)",
    "group-info bounding boxes are finite and non-zero so that 'bounds == union of group boxes' is well defined; BSP plane normals are axis-aligned unit vectors (all a MOBN node can carry); liquid grids are at least 1x1",
    "bit 0x2 of WmoLiquid.flags is the crate's marker for its Wod+ liquid layout: in conversions across the Mop/Wod boundary that bit is left to the converter, every other bit must stay",
    "the walker's MLIQ layout is the format's (MVER 17): for groups written for Wod and later (the crate's own 16-byte liquid vertices under its own MVER numbers) liquid is "
    "judged by framing and presence only (tallied as liquid_layout_from_wod_on_observed_not_judged)",
    "editor sessions: vertices added through the editor are ordinary finite numbers; the saved root's bounds / doodad name offsets are compared through WmoParser only where the "
    "parser's and writer's known substitutions are the identity (bounds == union of the group boxes, offsets canonical), otherwise through the walker (bounds) or not at all (tallied)",
    "trigger predicates (names-differ, bbox-free, doodad-offsets-free, skybox-set, materials>0, liquid-present, header-36-bytes) only partition cases for known findings; the complementary sub-space is compared strictly",
]

EXCLUSIONS = [
    "WmoRoot.version: Classic..Mop are all written as MVER 17 and read back as Classic; compared as MVER number (item 'mver': from_raw(to_raw(target)) for WmoParser, the raw number for parse_wmo); conversions check the version field itself",
    "WmoRoot.texture_offset_index_map: derived index; not in the projection, checked separately (every texture's MOTX byte offset -> its index) for both parsers",
    "WmoMaterial.framebuffer_blend: no MOMT field is written from it and the parser fills in Color::default()",
    "WmoLight.properties: derived by the parser from light_type (constant defaults); nothing on disk",
    "WmoDoodadDef.set_index: nothing on disk; the parser always yields 0",
    "WmoRoot.convex_volume_planes (MCVP): not in the statement's list, never written; generated as None",
    "doodad name strings: the legacy WmoRoot has no doodad-name list (the writer synthesises 'doodad_<offset>'); only 'every MODD offset is the start of a MODN string' and n_doodad_names are checked",
    "visibility lists through parse_wmo: the writer/WmoParser pair uses a private MOVV=offset-table / MOVB=0xFFFF-terminated encoding that root_parser reads as vertex / block records; compared through WmoParser only",
    "MOPT plane distance, MOPR/MODS/MOLT padding, MOHD wmo id / LOD count: not part of the model",
    "WmoGroup.materials (MOPY) and WmoGroupHeader.group_index: not in the statement's group list and absent from the group format header; never written as MOPY. group_index is compared only in the compatibility decode of the 36-byte header and in conversions",
    "WmoGroup.doodad_refs (MODR): not among the group lists the statement names; written and read values are compared and tallied (extra_doodad_refs_*) but never produce a violation "
    "(on a tree with a 68-byte MOGP header parse_wmo does not read MODR nested in MOGP at all)",
    "vertex_colors / bsp_nodes / doodad_refs: Some(empty) and None are the same content (no chunk either way)",
    "liquid through parse_wmo: only presence (group_parser keeps a private 24-byte MliqHeader); the walker compares dimensions, heights and tile flags against the format layout",
    "group second-write (clause b): needs a parser that returns the writer's input type; WmoGroupParser::parse_group is a stub, so it is attempted and tallied (group_rewrite_not_checkable), and 'same object written twice' is compared instead",
    "parse_wmo is not called on written groups whose MOGP is shorter than 68 bytes (group_parser computes size-68 unchecked); tallied as parse_wmo_not_called_mogp_lt_68",
]


def _samples(res):
    """vh_common writes samples for held cases only; on this tree every case carries a known finding
    (e.g. the 60-byte MOHD, the 36-byte MOGP header), so the worker journals a few executed cases itself."""
    extra = res.extras.pop("sample_cases", None) or []
    extra.sort(key=lambda x: x.get("i", 0))
    roots = [x for x in extra if x.get("desc", {}).get("kind") == "root"][:3]
    groups = [x for x in extra if x.get("desc", {}).get("kind") == "group"][:3]
    if len(res.samples) < 6:
        res.samples.extend((roots + groups)[:6 - len(res.samples)])


def run(tier, seed, scratch, t0):
    return sup.simple_check("C15", "vh-formats", "c15", tier, seed, scratch, t0, "exploration", RULE, ASSUME,
                            nshards=16, case_timeout=120, min_cases=200,
                            post=_samples,
                            extra_cov={"exclusions": EXCLUSIONS, "versions": ["Classic", "Tbc", "Wotlk", "Cataclysm", "Mop", "Wod", "Legion", "Bfa", "Shadowlands", "Dragonflight", "WarWithin"]})


def replay(rp, scratch):
    return sup.generic_replay(rp, scratch, "vh-formats")
