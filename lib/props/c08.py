"""C08 — patch-chain lookup returns the highest-priority version whatever the history; binary patches are applied and
verified against the digest they declare, or an error — never unverified bytes (DESIGN.md §6 C08).

Part A (worker c08 --mode chain): operation histories on PatchChain against a priority-list model; the worker builds
its four small archives itself with ArchiveBuilder (with listfile).
Part B (worker c08 --mode patch): this module generates a corpus of PTCH patch files with its own encoder (COPY and
BSD0 = bsdiff40 control/data/extra blocks, RLE-compressed), checks every generated patch with its own independent
RLE decoder + bsdiff apply, plants them as PATCH_FILE entries in archives written by lib/refmpq.py, derives corrupted
variants, and hands manifests to the worker, which drives patch::apply_patch directly and PatchChain::read_file.
"""
import hashlib
import json
import os
import random
import struct
import zlib
from concurrent.futures import ProcessPoolExecutor

import refmpq
import sup

RULE = ("part A: one case = one history over the 29-letter alphabet {add(i,p), remove(i), set_priority(i,p), clear} on four builder-made archives (overlapping, disjoint, "
        "case- and slash-variant names) with p in {-5,0,7}; after EVERY operation read_file under several spellings of every name of the universe (+ absent names), list(), "
        "contains_file, find_file_archive, archive_count and get_priority are compared with a (priority desc, add-sequence asc) list model; all histories of length <= 3 "
        "+ length 4 sampled (quick 12000, thorough 60000) + random length-12 histories (quick 100, thorough 500); plus every insertion order x priority assignment of the multiset {-5,0,0,7} "
        "(and all-equal) x {sequential add_archive, from_archives_parallel, add_archives_parallel after a sequential prefix} under seeded delays, and 48 tied single-name archives "
        "loaded in parallel. part B: one case = one generated PTCH patch driven through PatchFile::parse + apply_patch with every header field altered over boundary values, every "
        "16th (quick) / every (thorough) payload byte altered, bsdiff40 header/control fields at boundary values, truncations and altered base files; or one PatchChain over archives "
        "written by the reference MPQ writer whose winning entry is a PATCH_FILE (1-3 patches deep, three storage layouts, well-formed and corrupted variants: PTCH-level corruption of the stored patch file, and container-level damage = an intact PTCH file whose "
        "compressed stream in the archive is flipped / zeroed / truncated / has a bad checksum / is announced under another codec, so that the entry cannot be unpacked). "
        "Round 8: the four archives of part A exist in four builder configurations chosen per case (all V1 plain; V2/V3/V4/V1, V4/V4/V3/V3, V3/V2/V1/V4 - the V3/V4 ones carry HET/BET tables - two of them with "
        "every second entry stored encrypted, plain and FIX_KEY key); after every operation also extract_files (all query spellings + absent names: one slot per name, in request order, each slot what read_file gives), "
        "get_chain_info ((path, priority) records = the model's members, highest priority first, earlier added first among equal added priorities) and get_archive (Some exactly for members) are compared; "
        "part B adds chains over an encrypted base entry (reference-written single unit raw/zlib, or built by the library in V1..V4) and encrypted PATCH_FILE entries (single unit raw/zlib, zlib sectors; plain and FIX_KEY key; "
        "one variant encrypted under a wrong key = unreadable winner), and runs extract_files / get_chain_info / get_archive on every patch-entry chain. "
        "distinct = distinct (history op-kind sequence) / (api, order, priorities) / (patch type, seek trait, size classes) / (chain depth, types, layout, variant) classes executed.")
ASSUME = ["trusted base: the PTCH/BSD0/RLE encoder and the independent RLE decoder + bsdiff40 apply in lib/props/c08.py (every generated patch is decoded and applied by the "
          "reference before use; the container layout is the one the repository's own hand-made test patches use: PTCH.patch_data_size = size of the decompressed bsdiff blob, "
          "XFRM payload = u32 size + RLE stream), and lib/refmpq.py for the archives that carry PATCH_FILE entries",
          "ties: the statement fixes ties only for added archives (earliest added wins); a tie in which an archive's current priority was assigned by set_priority may be won by either",
          "an archive without a (listfile) cannot contribute names to a chain by design and is outside the workload; adding an archive that is already in the chain is outside the workload (skipped)",
          "corrupted patch: Ok(bytes) is accepted iff MD5(bytes) equals the md5_after stored at offset 40 of the winning patch as it is on disk; Err is always accepted; a panic or a "
          "single heap request >= 256 MiB (requests >= 1 GiB are refused by the monitor, which aborts the worker and is attributed to the open case) is a violation",
          "container-level damage (the winning or a lower PATCH_FILE entry cannot be unpacked from its archive): same oracle, with md5_after taken from the intact PTCH file that was stored; only "
          "data-bearing bytes of the entry are damaged (TPatchInfo, sector offset table and block table are left consistent: structural fields of the container belong to C05)",
          "well-formed patch (plain stack: base below, patches above): Err is a violation (design reading: the error clause of the statement is for corrupted input)",
          "encrypted entries in part B use a name without directory part and units that are a whole number of dwords (else they are left unencrypted and counted), so that the reference writer and the "
          "repository's reader agree on key and cipher tail (the recorded C02 deviations are not this property's subject); a library-built encrypted base is consistent with the library's reader by construction",
          "get_chain_info order: only what decides lookups is demanded (descending priority; insertion order among equal priorities given by an add); format_version / file_count are counted, not judged",
          "hook: verif_hooks::trace_start/trace_take record 'open' events inside from_archives_parallel/add_archives_parallel; a non-zero delay seed injects 0-200 us sleeps"]

M32 = 0xFFFFFFFF
M64 = 0xFFFFFFFFFFFFFFFF


def md5(b):
    return hashlib.md5(bytes(b)).digest()


# ------------------------------------------------------------------ RLE (encoder + independent decoder)

def rle_encode(blob, rng, style):
    """u32 decompressed size, then control bytes: 0x80|(n-1) followed by n literal bytes (n 1..128); (n-1) with the
    high bit clear = skip n zero bytes (n 1..128) of the zero-prefilled output. Styles vary how zeros are expressed."""
    out = bytearray(struct.pack("<I", len(blob) & M32))
    end = len(blob)
    if style in ("trim", "mixed"):
        while end > 0 and blob[end - 1] == 0:
            end -= 1                        # trailing zeros need not be encoded (the output is pre-filled)

    def literal(a, b):
        while a < b:
            cap = 128 if style != "mixed" else rng.choice([128, 128, 1, 2, 127, 100])
            k = min(cap, b - a)
            out.append(0x80 | (k - 1))
            out.extend(blob[a:a + k])
            a += k

    if style == "literal":
        literal(0, end)
        return bytes(out)
    minrun = {"skip1": 1, "trim": 2, "mixed": 3}[style]
    i, lit = 0, None
    while i < end:
        if blob[i] == 0:
            j = i
            while j < end and blob[j] == 0:
                j += 1
            if j - i >= minrun:
                if lit is not None:
                    literal(lit, i)
                    lit = None
                z = j - i
                while z > 0:
                    k = min(z, 128 if style != "mixed" else rng.choice([128, 128, 64, 1, 127]))
                    out.append(k - 1)
                    z -= k
            elif lit is None:
                lit = i
            i = j
            continue
        if lit is None:
            lit = i
        i += 1
    if lit is not None:
        literal(lit, end)
    return bytes(out)


def rle_decode(comp, size):
    """Independent decoder written from the format description (zezula.net/en/mpq/patchfiles.html)."""
    out = bytearray(size)
    s, d = 4, 0
    while s < len(comp) and d < size:
        b = comp[s]
        s += 1
        if b & 0x80:
            cnt = (b & 0x7F) + 1
            take = min(cnt, size - d, len(comp) - s)
            out[d:d + take] = comp[s:s + take]
            s += take
            d += take
        else:
            d += b + 1
    return bytes(out)


# ------------------------------------------------------------------ bsdiff40 (encoder + independent apply)

def enc_seek(s):
    return s if s >= 0 else (0x80000000 | (-s))


def bsdiff_blob(ctrl, data, extra, newsize, ctrl_size=None, data_size=None, sig=b"BSDIFF40"):
    cb = b"".join(struct.pack("<III", a & M32, e & M32, enc_seek(s) & M32) for a, e, s in ctrl)
    return sig + struct.pack("<QQQ", (len(cb) if ctrl_size is None else ctrl_size) & M64, (len(data) if data_size is None else data_size) & M64, newsize & M64) + cb + bytes(data) + bytes(extra)


class RefReject(Exception):
    pass


def bsdiff_apply(blob, old):
    """Colin Percival's bspatch loop over the MPQ flavour of the container: 32-byte header, 3 x u32 control
    triples (third one sign-magnitude), diff bytes added to old bytes where old exists, then extra bytes."""
    if len(blob) < 32 or blob[:8] != b"BSDIFF40":
        raise RefReject("signature")
    cl, dl, newsize = struct.unpack_from("<QQQ", blob, 8)
    if 32 + cl + dl > len(blob):
        raise RefReject("block sizes")
    ctrl = blob[32:32 + cl]
    data = blob[32 + cl:32 + cl + dl]
    extra = blob[32 + cl + dl:]
    new = bytearray(newsize)
    np_ = op = dp = ep = 0
    for k in range(cl // 12):
        a, e, s = struct.unpack_from("<III", ctrl, 12 * k)
        if np_ + a > newsize or dp + a > len(data):
            raise RefReject("add overrun")
        for i in range(a):
            o = op + i
            new[np_ + i] = (data[dp + i] + (old[o] if 0 <= o < len(old) else 0)) & 0xFF
        np_ += a
        op += a
        dp += a
        if np_ + e > newsize or ep + e > len(extra):
            raise RefReject("extra overrun")
        new[np_:np_ + e] = extra[ep:ep + e]
        np_ += e
        ep += e
        op += -(s & 0x7FFFFFFF) if s & 0x80000000 else s
    if np_ != newsize:
        raise RefReject("short")
    return bytes(new)


# ------------------------------------------------------------------ PTCH container

T_COPY = 0x59504F43
T_BSD0 = 0x30445342
HDR = 68  # 16 (PTCH) + 40 (MD5_) + 12 (XFRM header)

# (region, offset, size) of every header field
FIELDS = [("ptch.sig", 0, 4), ("ptch.patch_data_size", 4, 4), ("ptch.size_before", 8, 4), ("ptch.size_after", 12, 4),
          ("md5.sig", 16, 4), ("md5.block_size", 20, 4), ("md5.before", 24, 16), ("md5.after", 40, 16),
          ("xfrm.sig", 56, 4), ("xfrm.block_size", 60, 4), ("xfrm.type", 64, 4)]


def ptch_file(ptype, payload, patch_data_size, size_before, size_after, md5_before, md5_after):
    return (struct.pack("<4sIII", b"PTCH", patch_data_size & M32, size_before & M32, size_after & M32)
            + struct.pack("<4sI", b"MD5_", 40) + md5_before + md5_after
            + struct.pack("<4sII", b"XFRM", (12 + len(payload)) & M32, ptype) + payload)


def ptch_copy(old, new):
    return ptch_file(T_COPY, bytes(new), len(new), len(old), len(new), md5(old), md5(new))


def ptch_bsd0(old, new, blob, rng, style):
    return ptch_file(T_BSD0, rle_encode(blob, rng, style), len(blob), len(old), len(new), md5(old), md5(new))


def ref_apply_ptch(p, old):
    """Reference application of a PTCH file (used to validate the encoder on every generated patch)."""
    if len(p) < HDR or p[0:4] != b"PTCH" or p[16:20] != b"MD5_" or p[56:60] != b"XFRM":
        raise RefReject("container")
    pds, sb, sa = struct.unpack_from("<III", p, 4)
    if md5(old) != p[24:40] or len(old) != sb:
        raise RefReject("base digest")
    ptype = struct.unpack_from("<I", p, 64)[0]
    payload = p[HDR:]
    if ptype == T_COPY:
        new = payload
    elif ptype == T_BSD0:
        new = bsdiff_apply(rle_decode(payload, pds), old)
    else:
        raise RefReject("type")
    if len(new) != sa or md5(new) != p[40:56]:
        raise RefReject("result digest")
    return bytes(new)


# ------------------------------------------------------------------ generators

SIZES = [0, 1, 2, 3, 11, 12, 13, 15, 16, 17, 31, 32, 33, 127, 128, 129, 255, 256, 257, 511, 512, 513, 1000, 1023, 1024, 1025, 2047, 2048, 3000, 4095, 4096]


def size_class(n):
    return "0" if n == 0 else "1-16" if n <= 16 else "17-256" if n <= 256 else "257-1024" if n <= 1024 else "1025-4096"


def gen_content(rng, n, cls):
    if cls == "random":
        return bytes(rng.getrandbits(8) for _ in range(n))
    if cls == "sparse":
        out = bytearray(n)
        i = rng.randrange(8) if n else 0
        while i < n:
            out[i] = rng.randrange(1, 256)
            i += 1 + rng.randrange(60)
        return bytes(out)
    if cls == "text":
        w = [b"the ", b"quick ", b"Interface\\", b"Glue", b".blp\r\n", b"0123456789", b"\x00\x00\x00\x00"]
        out = bytearray()
        while len(out) < n:
            out += rng.choice(w)
        return bytes(out[:n])
    # "ramp": every position distinguishable mod 251, so a wrong old offset shows
    k = rng.randrange(251)
    return bytes((i * 7 + k + (i // 251)) % 251 + 1 for i in range(n))


def gen_bsd_script(rng, old, target_new, seek_mode):
    """Build (new, ctrl, data, extra): the new file is *defined* by a random control script over the old file, so
    any segmentation (zero-length adds/extras, adds running past the end of old, negative and positive seeks) is a
    valid bsdiff of (old, new). seek_mode: 'fwd' (no negative seek), 'neg' (free), 'negzero' (negative seeks land on 0)."""
    m = len(old)
    new = bytearray()
    ctrl, data, extra = [], bytearray(), bytearray()
    op = 0
    guard = 0
    while len(new) < target_new and guard < 400:
        guard += 1
        rem = target_new - len(new)
        r = rng.random()
        a = 0 if r < 0.12 else min(rem, rng.choice([1, 2, 3, 7, 12, 16, 64, 128, 129, 300, 1000, rem]))
        if r > 0.9 and m:
            a = min(rem, max(0, m - op) + rng.randrange(0, 9))      # run up to / past the end of old
        dmode = rng.random()
        for i in range(a):
            o = op + i
            ob = old[o] if 0 <= o < m else 0
            d = 0 if dmode < 0.6 and rng.random() > 0.06 else rng.getrandbits(8)
            data.append(d)
            new.append((ob + d) & 0xFF)
        op += a
        rem -= a
        r = rng.random()
        e = 0 if r < 0.35 else min(rem, rng.choice([1, 2, 5, 16, 127, 128, 129, 500, rem]))
        eb = bytes(rng.getrandbits(8) if rng.random() < 0.8 else 0 for _ in range(e))
        extra += eb
        new += eb
        # next read position in old
        if seek_mode == "fwd":
            tgt = min(m, op + rng.choice([0, 0, 1, 5, 100])) if op <= m else op
        elif seek_mode == "negzero":
            tgt = 0 if rng.random() < 0.5 and op > 0 else (min(m, op + rng.choice([0, 1, 9])) if op <= m else op)
        else:
            tgt = rng.randrange(0, m + 1)
        ctrl.append((a, e, tgt - op))
        op = tgt
    if len(new) < target_new:                                        # (guard) fill with one extra block
        e = target_new - len(new)
        eb = bytes(rng.getrandbits(8) for _ in range(e))
        extra += eb
        new += eb
        ctrl.append((0, e, 0))
    if rng.random() < 0.2:
        ctrl.append((0, 0, rng.choice([0, 0, 3])))                   # trailing no-op triple
    return bytes(new), ctrl, bytes(data), bytes(extra)


def script_traits(ctrl, m):
    """Structural trigger predicates of a control script (used in signatures)."""
    op = 0
    neg_any = False
    neg_nonzero_used = False     # a negative seek to a position != 0 that a later add (add>0) reads from
    overrun = False
    pending = False
    for a, e, s in ctrl:
        if a > 0 and pending:
            neg_nonzero_used = True
        if op + a > m and a > 0:
            overrun = True
        op += a
        if s < 0:
            neg_any = True
            if op + s != 0:
                pending = True
        op += s
    return {"neg_any": neg_any, "neg_nonzero": neg_nonzero_used, "overrun": overrun, "nctrl": len(ctrl)}


def u32_values(v):
    s = [0, 1, (v - 1) & M32, (v + 1) & M32, v ^ 1, v ^ 0x100, (v * 2 + 3) & M32, 0xFFFF, 0x10000, 0x0FFFFFFF, 0x10000000, 0x3FFFFFFF]
    return [x for x in dict.fromkeys(s) if x != v]


HUGE_U32 = [0x40000000, 0x7FFFFFFF, 0x80000000, 0xFFFFFFFF]


def header_muts(p):
    """Every header field altered; u32 size fields over boundary values below 1 GiB (values >= 1 GiB: isolated cases)."""
    muts = []
    for name, off, size in FIELDS:
        if size == 16:
            for i in range(16):
                muts.append({"r": name, "o": off + i, "b": bytes([p[off + i] ^ (1 << (i % 8))]).hex()})
            muts.append({"r": name, "o": off, "b": (b"\0" * 16).hex()})
            muts.append({"r": name, "o": off, "b": md5(b"").hex()})
        elif name.endswith(".sig"):
            for i in range(4):
                muts.append({"r": name, "o": off + i, "b": bytes([p[off + i] ^ (0x20 if i % 2 else 0x01)]).hex()})
            muts.append({"r": name, "o": off, "b": "00000000"})
        elif name == "xfrm.type":
            cur = struct.unpack_from("<I", p, off)[0]
            for v in [T_COPY if cur == T_BSD0 else T_BSD0, 0, 0x31445342, 0x59504F44, M32]:
                muts.append({"r": name + (".swap" if v in (T_COPY, T_BSD0) else ""), "o": off, "b": struct.pack("<I", v).hex()})
        else:
            cur = struct.unpack_from("<I", p, off)[0]
            for v in u32_values(cur):
                muts.append({"r": name, "o": off, "b": struct.pack("<I", v).hex()})
    return muts


def bsd_variants(rng, old, new, ctrl, data, extra, quick, style):
    """bsdiff-level corruptions (re-encoded): header fields at boundary values, control triples, data/extra bytes."""
    out = []
    base_blob = bsdiff_blob(ctrl, data, extra, len(new))
    L = len(base_blob)
    cs, ds = 12 * len(ctrl), len(data)

    def emit(region, blob):
        if blob != base_blob:
            out.append((region, ptch_bsd0(old, new, blob, rng, style)))

    def with_hdr(cs_=None, ds_=None, ns_=None, sig=b"BSDIFF40"):
        return sig + struct.pack("<QQQ", (cs if cs_ is None else cs_) & M64, (ds if ds_ is None else ds_) & M64, (len(new) if ns_ is None else ns_) & M64) + base_blob[32:]

    for i in (0, 3, 7):
        s = bytearray(b"BSDIFF40")
        s[i] ^= 0x01
        emit("bsd.sig", with_hdr(sig=bytes(s)))
    u64v = lambda v: list(dict.fromkeys([0, 1, v - 1, v + 1, v - 12, v + 12, v + 11, L, L - 32, L - 31, L - 33, L - 32 - ds, L - 32 - cs, 1 << 31, (1 << 32) - 1, 1 << 32, (1 << 63) - 1, 1 << 63,
                                         M64, M64 - 31, M64 - 32, M64 - 15, (1 << 64) - 32 - ds, (1 << 64) - cs, (1 << 64) - ds, (1 << 64) - 12]))
    for v in u64v(cs):
        emit("bsd.ctrl_size", with_hdr(cs_=v))
    for v in u64v(ds):
        emit("bsd.data_size", with_hdr(ds_=v))
    for v in [0, 1, len(new) - 1, len(new) + 1, 1 << 31, 1 << 32, (1 << 32) + len(new), M64]:
        emit("bsd.new_size", with_hdr(ns_=v))
    # sizes that stay consistent with each other but disagree with the blocks present
    emit("bsd.ctrl_size+data_size", with_hdr(cs_=cs + 12, ds_=max(0, ds - 12)))
    emit("bsd.ctrl_size+data_size", with_hdr(cs_=max(0, cs - 12), ds_=ds + 12))
    # control triples
    if ctrl:
        picks = sorted(set([0, len(ctrl) // 2, len(ctrl) - 1]))
        for k in picks:
            a, e, s = ctrl[k]
            raw = [a & M32, e & M32, enc_seek(s) & M32]
            for f, fname in enumerate(("add", "extra", "seek")):
                vals = [0, raw[f] + 1, raw[f] - 1, 0x7FFFFFFF, 0x80000000, 0x80000001, M32, raw[f] ^ 0x80000000]
                for v in dict.fromkeys(x & M32 for x in vals):
                    if v == raw[f]:
                        continue
                    r2 = list(raw)
                    r2[f] = v
                    cb = bytearray(base_blob)
                    struct.pack_into("<III", cb, 32 + 12 * k, *r2)
                    emit("bsd.ctrl." + fname, bytes(cb))
        # drop / duplicate a triple (sizes adjusted)
        cb = base_blob[:32] + base_blob[32 + 12:]
        emit("bsd.ctrl.dropped", b"BSDIFF40" + struct.pack("<QQQ", cs - 12, ds, len(new)) + cb[32:])
    # data / extra bytes
    step = 16 if quick else 1
    lim = 24 if quick else 128
    for region, start, ln in (("bsd.data", 32 + cs, ds), ("bsd.extra", 32 + cs + ds, len(extra))):
        pos = list(range(rng.randrange(step) if ln else 0, ln, step))
        if len(pos) > lim:
            pos = sorted(rng.sample(pos, lim))
        for q in pos:
            cb = bytearray(base_blob)
            cb[start + q] ^= rng.choice([0x01, 0x80, 0xFF, 0x10])
            emit(region, bytes(cb))
    return out


NAME_DIRS = ["Data\\Patched", "DBFilesClient", "Interface\\Glue", "World\\Maps\\Azeroth"]


def tpatch_info(ptch):
    return struct.pack("<III", 28, 0x80000000, len(ptch)) + md5(ptch)


CONTAINER_DAMAGE = ["stream-flip", "stream-zeroed", "stream-truncated", "stream-checksum", "method-byte"]


def damage_unit(unit, kind, rng):
    """One stored unit (mask byte + zlib stream) of an intact PTCH file, damaged so that the *container* can no longer
    unpack it. Only data-bearing bytes are touched (the structural fields of the entry - TPatchInfo, sector offset
    table, block table - are the business of the parser-totality property, not of this one)."""
    m, z = unit[0], bytearray(unit[1:])
    if kind == "stream-flip":
        q = len(z) // 2 if rng is None else rng.randrange(2, max(3, len(z) - 4))
        z[q] ^= 0x55
    elif kind == "stream-zeroed":
        z = bytearray(len(z))
    elif kind == "stream-truncated":
        z = z[:max(1, len(z) // 2)]
    elif kind == "stream-checksum":
        z[-1] ^= 0x01                       # the Adler-32 trailer of the zlib stream
    elif kind == "method-byte":
        m = 0x10                            # a zlib stream announced as bzip2
    return bytes([m]) + bytes(z)


def patch_entry(name, ptch, fsize, layout, shift, damage=None, rng=None):
    """A PATCH_FILE block: TPatchInfo (28 bytes, never compressed) followed by the PTCH file, stored as a single raw
    unit, a single zlib unit, or zlib sectors behind a sector offset table. Falls back to raw when zlib does not shrink.
    damage (one of CONTAINER_DAMAGE): the compressed unit (for sectors: one of them, chosen by rng) is damaged after
    compression; the sector offset table stays consistent with the stored bytes. Not applicable to the raw layout
    (returned layout "raw": the caller skips the variant)."""
    info = tpatch_info(ptch)
    used = "raw"
    stored, method, single = info + ptch, 0, True
    if layout == "zlib-unit":
        z = zlib.compress(ptch, 6)
        if 1 + len(z) < len(ptch):
            unit = b"\x02" + z
            if damage:
                unit = damage_unit(unit, damage, rng)
            stored, method, used = info + unit, 0x02, "zlib-unit"
    elif layout == "zlib-sectors":
        ss = 512 << shift
        secs = [ptch[i:i + ss] for i in range(0, len(ptch), ss)]
        zs = [b"\x02" + zlib.compress(s, 6) for s in secs]
        if secs and all(len(z) < len(s) for z, s in zip(zs, secs)):
            if damage:
                k = len(zs) - 1 if damage == "stream-truncated" or rng is None else rng.randrange(len(zs))
                zs[k] = damage_unit(zs[k], damage, rng)
            offs = [4 * (len(secs) + 1)]
            for z in zs:
                offs.append(offs[-1] + len(z))
            stored, method, single, used = info + struct.pack("<%dI" % len(offs), *offs) + b"".join(zs), 0x02, False, "zlib-sectors"
    f = refmpq.RefFile(name, b"\0" * fsize, method=method, single_unit=single, flags_extra=refmpq.FLAG_PATCH_FILE, raw_stored=stored)
    return f, used


def spellings(name):
    return list(dict.fromkeys([name, name.upper(), name.lower(), name.replace("\\", "/")]))


def gen_group(args):
    """One group = one base file + 1..3 stacked patches: direct cases (one per patch) and chain cases. Returns
    a list of manifests (dicts without idx; numbered by the caller)."""
    g, seed, tier, outdir = args
    quick = tier != "thorough"
    rng = random.Random((seed * 1000003 + g) * 7919 + 17)
    depth = 1 + g % 3
    m0 = SIZES[g % len(SIZES)] if g < 2 * len(SIZES) else rng.randrange(0, 4097)
    cls = ["ramp", "random", "sparse", "text"][(g // 3) % 4]
    versions = [gen_content(rng, m0, cls)]
    levels = []
    for lv in range(depth):
        old = versions[-1]
        ptype = "COPY" if (g + lv) % 4 == 3 else "BSD0"
        n = SIZES[(g * 7 + lv * 11 + 5) % len(SIZES)] if rng.random() < 0.7 else rng.randrange(0, 4097)
        if ptype == "COPY":
            new = gen_content(rng, n, rng.choice(["ramp", "random", "sparse", "text"]))
            if new == old:
                new = new + b"x"
            p = ptch_copy(old, new)
            lev = {"type": "COPY", "traits": {"neg_any": False, "neg_nonzero": False, "overrun": False, "nctrl": 0}, "ptch": p, "style": "-"}
        else:
            seek_mode = ["fwd", "neg", "negzero", "neg"][(g // 2 + lv) % 4]
            new, ctrl, data, extra = gen_bsd_script(rng, old, n, seek_mode)
            style = ["literal", "mixed", "trim", "skip1"][(g + lv) % 4]
            blob = bsdiff_blob(ctrl, data, extra, len(new))
            p = ptch_bsd0(old, new, blob, rng, style)
            lev = {"type": "BSD0", "traits": script_traits(ctrl, len(old)), "ptch": p, "style": style, "seek_mode": seek_mode,
                   "script": (ctrl, data, extra)}
        # the reference must reproduce `new` from its own decode of the encoded patch — otherwise the corpus is wrong
        got = ref_apply_ptch(p, old)
        if got != new:
            raise sup.Broken(f"C08 corpus self-check failed: group {g} level {lv} ({ptype})")
        versions.append(new)
        levels.append(lev)
    name = f"{NAME_DIRS[g % 4]}\\File{g}.bin"
    cases = []
    # ---------------- direct cases
    for lv, lev in enumerate(levels):
        old, new, p = versions[lv], versions[lv + 1], lev["ptch"]
        t = lev["traits"]
        seekc = "negnz" if t["neg_nonzero"] else ("neg" if t["neg_any"] else "fwd")
        blobs = []
        if lev["type"] == "BSD0" and (len(p) <= 1400 or g % 4 == 0 or not quick):
            ctrl, data, extra = lev["script"]
            blobs = [{"r": r, "p": b.hex()} for r, b in bsd_variants(rng, old, new, ctrl, data, extra, quick, lev["style"])]
        truncs = sorted(set(x for x in [0, 1, 10, 63, 64, 67, 68, 69, 72, (len(p) + HDR) // 2, len(p) - 1] if 0 <= x < len(p)))
        bases = []
        if old:
            for tag, q in (("first", 0), ("mid", len(old) // 2), ("last", len(old) - 1)):
                bases.append({"r": "base.flip-" + tag, "o": q, "b": bytes([old[q] ^ 0x40]).hex()})
            bases.append({"r": "base.truncated", "len": len(old) - 1})
        bases.append({"r": "base.extended", "append": "00"})
        bases.append({"r": "base.extended", "append": "ff"})
        others = [("base.other-version", v) for k, v in enumerate(versions) if k != lv and v != old]
        cases.append({"kind": "direct", "class": f"direct|{lev['type']}|{seekc}|o{size_class(len(old))}|n{size_class(len(new))}|{lev['style']}",
                      "type": lev["type"], "traits": t, "group": g, "level": lv, "base": old.hex(), "ptch": p.hex(), "expect": new.hex(),
                      "muts": header_muts(p), "blobs": blobs, "truncs": truncs, "extend": ["00", "ff" * 7], "bases": bases,
                      "other_bases": [{"r": r, "d": v.hex()} for r, v in others],
                      "payload_step": 16 if quick else 1, "payload_patterns": [1, 128] if quick else [1, 128, 255]})
        # isolated cases: one u32 size field >= 1 GiB each (a refused request aborts the process: own case)
        if (g in (0, 3)) if quick else g < 8:
            for fname, off, _sz in FIELDS:
                if fname in ("ptch.patch_data_size", "ptch.size_before", "ptch.size_after", "xfrm.block_size"):
                    for v in HUGE_U32:
                        cases.append({"kind": "isolated", "class": f"isolated|{lev['type']}|{fname}|{v:08x}", "type": lev["type"], "traits": t, "group": g, "level": lv,
                                      "base": old.hex(), "ptch": p.hex(), "mut": {"r": fname + ">=1GiB", "o": off, "b": struct.pack("<I", v).hex()}})
    # ---------------- chain cases
    gdir = os.path.join(outdir, f"g{g}")
    os.makedirs(gdir, exist_ok=True)
    layout = ["raw", "zlib-unit", "zlib-sectors"][(g // 3) % 3]
    shift = [0, 1, 3, 2][g % 4]
    version = 1 + (g % 2)
    other = f"Other\\plain{g}.txt"

    def write(fname, files):
        arc, _info = refmpq.write_archive(files, version=version, shift=shift, listfile=True)
        pth = os.path.join(gdir, fname)
        with open(pth, "wb") as fh:
            fh.write(arc)
        return pth

    def regular(nm, data, k=0):
        meth = [0, 0x02][(g + k) % 2]
        return refmpq.RefFile(nm, data, method=meth, single_unit=((g + k) % 3 == 0) and len(data) > 0)

    def patch_arc(fname, lv, ptch_bytes, extra_files=(), layout_=None, damage=None):
        f, used = patch_entry(name, ptch_bytes, len(versions[lv + 1]), layout_ or layout, shift, damage=damage, rng=rng)
        if damage and used == "raw":
            return None, used
        return write(fname, [f] + list(extra_files)), used

    base_path = write("base.mpq", [regular(name, versions[0]), regular(other, b"base " + other.encode()), regular(f"Only\\base{g}.dat", b"only-base")])
    ppaths, used_layouts = [], []
    for lv, lev in enumerate(levels):
        extra_files = [regular(other, f"patch{lv + 1} ".encode() + other.encode(), lv + 1)] if lv == depth - 1 else []
        pth, used = patch_arc(f"p{lv + 1}.mpq", lv, lev["ptch"], extra_files)
        ppaths.append(pth)
        used_layouts.append(used)
    prios = sorted(rng.sample([-5, -1, 0, 1, 3, 7, 100, 1000], depth + 1))
    arcs = [{"path": base_path, "prio": prios[0], "role": "base"}] + [{"path": ppaths[lv], "prio": prios[lv + 1], "role": f"patch{lv + 1}"} for lv in range(depth)]
    types = "+".join(l["type"] for l in levels)
    negnz = any(l["traits"]["neg_nonzero"] for l in levels)
    chain_traits = {"neg_nonzero": negnz, "depth": depth, "layouts": used_layouts}
    others_expect = [{"name": other, "expect": (f"patch{depth} ".encode() + other.encode()).hex()}, {"name": f"Only\\base{g}.dat", "expect": b"only-base".hex()}]

    def chain_case(variant, arcs_, expect_kind, expect, sigtag, top_ptch, order=None, api="sequential", others=None, extra=None):
        order = order if order is not None else rng.sample(range(len(arcs_)), len(arcs_))
        c = {"kind": "chain", "class": f"chain|d{depth}|{types}|{layout}|v{version}|{variant}|{api}", "variant": variant, "group": g, "name": name, "lookups": spellings(name),
             "archives": arcs_, "add_order": order, "api": api, "expect_kind": expect_kind, "expect": None if expect is None else expect.hex(),
             "declared_after": None if top_ptch is None else top_ptch[40:56].hex(), "top_ptch": None if top_ptch is None else top_ptch.hex(),
             "top_archive": None, "sigtag": sigtag, "traits": chain_traits, "others": others or []}
        if extra:
            c.update(extra)
        cases.append(c)

    top = levels[-1]["ptch"]
    # well-formed plain stack, three ways of building the chain
    for api in ("sequential", "from_archives_parallel", "add_archives_parallel"):
        chain_case("wellformed", arcs, "equal", versions[-1], types, top, api=api, others=others_expect, extra={"top_archive": ppaths[-1]})
    # base missing: must be an error (or, vacuously, verified bytes)
    chain_case("no-base", arcs[1:], "err-or-declared", None, "no-base", top)
    # a full (regular) copy on top of everything: ordinary override
    full_top = write("full-top.mpq", [regular(name, b"FULL-TOP " + versions[-1][:64])])
    chain_case("full-on-top", arcs + [{"path": full_top, "prio": prios[-1] + 5, "role": "full"}], "equal", b"FULL-TOP " + versions[-1][:64], "full-on-top", None,
               extra={"top_archive": full_top})
    # a full copy of version k shipped between the patches: the applicable patches are those above it
    if depth >= 2:
        k = 1 + (g % (depth - 1))
        # priority strictly between patch k and patch k+1
        lo, hi = prios[k], prios[k + 1]
        if hi - lo >= 2:
            mid = lo + 1
            full_mid = write("full-mid.mpq", [regular(name, versions[k])])
            arcs2 = arcs[:k + 1] + [{"path": full_mid, "prio": mid, "role": f"full-v{k}"}] + arcs[k + 1:]
            chain_case("full-between", arcs2, "equal", versions[-1], "full-between", top, extra={"top_archive": ppaths[-1]})
    # histories over a chain with patch entries: archives come and go between reads (a result computed for one chain must not
    # be served for another). Expectation per step from the statement: winner = highest-priority archive holding the name; a
    # regular winner is returned as is; a patch winner of level k yields version k when a regular file of version j < k and
    # all patches j+1..k are in the chain (highest regular file below the winner), otherwise an error or (vacuously) version k.
    full_hist = write("full-hist.mpq", [regular(name, b"FULL-HIST " + versions[0][:48])])
    harcs = [dict(a, level=k) for k, a in enumerate(arcs)] + [{"path": full_hist, "prio": prios[-1] + 9, "role": "full", "level": None}]
    hcontent = [versions[k] for k in range(depth + 1)] + [b"FULL-HIST " + versions[0][:48]]

    def hist_expect(present):
        if not present:
            return {"kind": "absent", "expect": None, "winner": "-"}
        w = max(present, key=lambda i: harcs[i]["prio"])
        if harcs[w]["level"] in (0, None):
            return {"kind": "equal", "expect": hcontent[w].hex(), "winner": "regular"}
        k = harcs[w]["level"]
        ok = all(j in present for j in range(0, k))          # base (level 0) and every patch below the winner
        return {"kind": "equal" if ok else "err-or-equal", "expect": versions[k].hex(), "winner": f"patch{'+complete' if ok else '+gap'}"}

    for hn in range(2 if quick else 4):
        present, steps = [], []
        n_steps = 7 + (g + hn) % 5
        for sidx in range(n_steps):
            absent = [i for i in range(len(harcs)) if i not in present]
            # build up first, then alternate: removals of the current winner and re-additions are what invalidates results
            if absent and (not present or rng.random() < (0.75 if len(present) < len(harcs) - 1 else 0.4)):
                i = rng.choice(absent)
                present.append(i)
                op = {"op": "add", "arc": i}
            else:
                i = max(present, key=lambda j: harcs[j]["prio"]) if rng.random() < 0.6 else rng.choice(present)
                present.remove(i)
                op = {"op": "remove", "arc": i}
            op.update(hist_expect(present))
            oth = [j for j in present if harcs[j]["level"] == 0 or harcs[j]["level"] == depth]
            op["other_expect"] = None if not oth else ((f"patch{depth} ".encode() if any(harcs[j]["level"] == depth for j in oth) else b"base ") + other.encode()).hex()
            steps.append(op)
        cases.append({"kind": "chain", "class": f"chain-history|d{depth}|{types}|{layout}|v{version}|h{hn}", "variant": "history", "group": g, "name": name, "lookups": spellings(name),
                      "archives": harcs, "steps": steps, "other_name": other, "api": "sequential", "traits": chain_traits, "sigtag": types})
    # corrupted variants of one level
    def corrupt_variants(p):
        vs = []
        def mut(region, off, b):
            q = bytearray(p)
            q[off:off + len(b)] = b
            vs.append((region, bytes(q)))
        mut("ptch.sig", 0, b"QTCH")
        mut("md5.sig", 16, b"MD5x")
        mut("xfrm.sig", 57, b"f")
        mut("xfrm.type", 64, b"XXXX")
        o = 40 + rng.randrange(16)
        mut("md5.after", o, bytes([p[o] ^ 0x01]))
        o = 24 + rng.randrange(16)
        mut("md5.before", o, bytes([p[o] ^ 0xA5]))
        mut("ptch.size_after", 12, struct.pack("<I", (struct.unpack_from("<I", p, 12)[0] + 1) & M32))
        mut("ptch.size_before", 8, struct.pack("<I", (struct.unpack_from("<I", p, 8)[0] + 1) & M32))
        if len(p) > HDR:
            for _ in range(2 if quick else 6):
                o = rng.randrange(HDR, len(p))
                mut("payload", o, bytes([p[o] ^ rng.choice([1, 0x80, 0xFF])]))
        vs.append(("truncate", p[:60]))
        vs.append(("truncate", p[:HDR + (len(p) - HDR) // 2]))
        return [(r, q) for r, q in vs if q != p]

    vi = 0
    for lv in sorted(set([depth - 1, 0])):
        cvs = corrupt_variants(levels[lv]["ptch"])
        if lv != depth - 1:
            cvs = cvs[::3]
        for region, q in cvs:
            vi += 1
            pth, _used = patch_arc(f"p{lv + 1}-c{vi}.mpq", lv, q)
            arcs2 = [dict(a) for a in arcs]
            arcs2[lv + 1]["path"] = pth
            top_stored = q if lv == depth - 1 else top
            where = "top" if lv == depth - 1 else "lower"
            chain_case(f"corrupt-{where}|{region}", arcs2, "err-or-declared", None, f"{levels[lv]['type']}|{region}", top_stored,
                       extra={"corrupt_level": lv, "corrupt_where": where, "region": region})
    # container-level damage of one level: the PTCH file itself is intact, but the archive entry that stores it cannot be
    # unpacked (damaged / truncated / mis-announced compressed stream). The winning entry is still that patch, so the
    # chain owes an error (or, vacuously, bytes with the digest the intact patch declares) - not an older version.
    clayout = layout if layout != "raw" else ["zlib-unit", "zlib-sectors"][g % 2]
    for lv in sorted(set([depth - 1, 0])):
        where = "top" if lv == depth - 1 else "lower"
        kinds = CONTAINER_DAMAGE if where == "top" else [CONTAINER_DAMAGE[(g + lv) % len(CONTAINER_DAMAGE)]]
        for kind in kinds:
            vi += 1
            pth, used = patch_arc(f"p{lv + 1}-k{vi}.mpq", lv, levels[lv]["ptch"], layout_=clayout, damage=kind)
            if pth is None:
                continue                    # this PTCH file does not shrink under zlib: it is stored raw, no container stream to damage
            arcs2 = [dict(a) for a in arcs]
            arcs2[lv + 1]["path"] = pth
            chain_case(f"container-{where}|{used}|{kind}", arcs2, "err-or-declared", None, f"{levels[lv]['type']}|container.{kind}", top,
                       extra={"corrupt_level": lv, "corrupt_where": where, "region": "container." + kind, "container_damage": kind, "container_layout": used})
    # ---------------- encrypted entries in a chain: the base file and the stored PTCH files behind the PATCH_FILE entries are
    # encrypted, so that Archive::read_file and read_patch_file_raw have to derive the file key (plain and FIX_KEY form).
    # The name has no directory part and every encrypted unit is a whole number of dwords: on such entries the repository's
    # reader and the reference writer agree (the recorded C02 deviations - key hashed from the full path, trailing len%4
    # bytes transformed - stay out of this check). Where the base cannot be stored that way it is built by the library itself
    # (ArchiveBuilder, by the worker), which is consistent with its own reader by construction.
    erng = random.Random((seed * 1000003 + g) * 104729 + 11)
    ename = f"EncFile{g}.bin"
    fix_base, fix_patch = bool(g & 1), bool(g & 2)

    def aligned_zlib(data):
        for level in (6, 9, 1, 2, 3, 4, 5, 7, 8):
            for wbits in (15, 14, 13, 12, 11, 10, 9):
                co = zlib.compressobj(level, zlib.DEFLATED, wbits)
                z = co.compress(data) + co.flush()
                if (1 + len(z)) % 4 == 0 and 1 + len(z) < len(data):
                    return (level, wbits), b"\x02" + z
        return None, None

    eother = f"plain-next-to-enc{g}.txt"
    v0 = versions[0]
    base_files = [(ename, v0), (eother, b"base " + eother.encode())]
    zp0, _u0 = aligned_zlib(v0)
    if g % 3 != 0 and len(v0) % 4 == 0 and len(v0) > 0:
        base_kind = "ref-raw-unit"
        bfile = refmpq.RefFile(ename, v0, method=0, encrypt=True, fix_key=fix_base, single_unit=True)
    elif g % 3 != 0 and zp0 is not None:
        base_kind = "ref-zlib-unit"
        bfile = refmpq.RefFile(ename, v0, method=0x02, encrypt=True, fix_key=fix_base, single_unit=True, zparams=zp0)
    else:
        base_kind, bfile = "library-built", None
    lib_base = None
    if bfile is not None:
        ebase = write("base-enc.mpq", [bfile, regular(eother, base_files[1][1])])
    else:
        ebase = os.path.join(gdir, "base-enc-lib.mpq")      # the worker builds <this path>.case<idx> with ArchiveBuilder
        lib_base = {"version": 1 + g % 4, "files": [{"name": n, "data": d.hex(), "encrypt": n == ename, "fix_key": fix_base, "zlib": bool(g & 4)} for n, d in base_files]}

    def enc_patch_arc(fname, lv, ptch_bytes, extra_files=(), wrong_key=False):
        info = tpatch_info(ptch_bytes)
        fsize = len(versions[lv + 1])
        ss = 512 << shift
        secs = [aligned_zlib(ptch_bytes[i:i + ss])[1] for i in range(0, len(ptch_bytes), ss)] if (g + lv) % 2 == 0 else [None]
        if all(z is not None for z in secs):
            # zlib sectors behind a sector offset table: the table is encrypted under key - 1, sector i under key + i
            offs = [4 * (len(secs) + 1)]
            for z in secs:
                offs.append(offs[-1] + len(z))
            fl = refmpq.FLAG_PATCH_FILE | refmpq.FLAG_ENCRYPTED | (refmpq.FLAG_FIX_KEY if fix_patch else 0)
            tab = struct.pack("<%dI" % len(offs), *offs)

            def mk2(key):
                body = tab + b"".join(secs) if key is None else refmpq.encrypt_bytes(tab, (key - 1) & M32) + b"".join(refmpq.encrypt_bytes(z, (key + i) & M32) for i, z in enumerate(secs))
                return [refmpq.RefFile(ename, b"\0" * fsize, method=0x02, single_unit=False, flags_extra=fl, raw_stored=info + body)] + list(extra_files)

            _arc, inf = refmpq.write_archive(mk2(None), version=version, shift=shift, listfile=True)
            pos, slen, fs, flags = inf["blocks"][0]
            key = refmpq.file_key(("not-" + ename) if wrong_key else ename, pos, fs, flags)
            arc, inf2 = refmpq.write_archive(mk2(key), version=version, shift=shift, listfile=True)
            if tuple(inf2["blocks"][0][:2]) != (pos, slen):
                raise sup.Broken(f"C08 corpus: the encrypted patch entry of group {g} moved between the two passes")
            pth = os.path.join(gdir, fname)
            with open(pth, "wb") as fh:
                fh.write(arc)
            return pth, "zlib-sectors"
        if len(ptch_bytes) % 4 == 0:
            unit, method, used = ptch_bytes, 0, "raw"
        else:
            _zp, unit = aligned_zlib(ptch_bytes)
            method, used = 0x02, "zlib-unit"
            if unit is None:
                return None, None
        fl = refmpq.FLAG_PATCH_FILE | refmpq.FLAG_ENCRYPTED | (refmpq.FLAG_FIX_KEY if fix_patch else 0)

        def mk(stored):
            return [refmpq.RefFile(ename, b"\0" * fsize, method=method, single_unit=True, flags_extra=fl, raw_stored=stored)] + list(extra_files)

        _arc, inf = refmpq.write_archive(mk(info + unit), version=version, shift=shift, listfile=True)
        pos, slen, fs, flags = inf["blocks"][0]
        key = refmpq.file_key(("not-" + ename) if wrong_key else ename, pos, fs, flags)
        arc, inf2 = refmpq.write_archive(mk(info + refmpq.encrypt_bytes(unit, key)), version=version, shift=shift, listfile=True)
        if tuple(inf2["blocks"][0][:2]) != (pos, slen) or len(unit) % 4:
            raise sup.Broken(f"C08 corpus: the encrypted patch entry of group {g} moved between the two passes")
        pth = os.path.join(gdir, fname)
        with open(pth, "wb") as fh:
            fh.write(arc)
        return pth, used

    eppaths, eused = [], []
    for lv, lev in enumerate(levels):
        extra_files = [regular(eother, f"patch{lv + 1} ".encode() + eother.encode(), lv + 1)] if lv == depth - 1 else []
        pth, used = enc_patch_arc(f"p{lv + 1}-enc.mpq", lv, lev["ptch"], extra_files)
        if pth is None:                     # no dword-aligned storage found for this PTCH file: this level stays unencrypted
            f, used = patch_entry(ename, lev["ptch"], len(versions[lv + 1]), "raw", shift)
            pth, used = write(f"p{lv + 1}-enc.mpq", [f] + extra_files), "plain-" + used
        eppaths.append(pth)
        eused.append(used)
    earcs = [{"path": ebase, "prio": prios[0], "role": "base"}] + [{"path": eppaths[lv], "prio": prios[lv + 1], "role": f"patch{lv + 1}"} for lv in range(depth)]
    enc_info = {"enc_base": base_kind, "enc_base_fix_key": fix_base, "enc_patches": eused, "enc_patch_fix_key": fix_patch, "lib_base": lib_base}
    eothers = [{"name": eother, "expect": (f"patch{depth} ".encode() + eother.encode()).hex()}]
    n_before = len(cases)
    for api in (("sequential", "from_archives_parallel", "add_archives_parallel") if not quick else ("sequential", ["from_archives_parallel", "add_archives_parallel"][g % 2])):
        order = erng.sample(range(len(earcs)), len(earcs))
        chain_case("wellformed-enc", earcs, "equal", versions[-1], types, top, order=order, api=api, others=eothers, extra=dict(enc_info, top_archive=eppaths[-1]))
    # the winning PATCH_FILE entry encrypted under another key: it cannot be made sense of, so the chain owes an error
    # (or, vacuously, bytes with the digest the intact patch declares)
    wpth, wused = enc_patch_arc(f"p{depth}-enc-wrongkey.mpq", depth - 1, top, wrong_key=True)
    if wpth is not None:
        arcs2 = [dict(a) for a in earcs]
        arcs2[-1]["path"] = wpth
        chain_case(f"container-top|enc-{wused}|wrong-key", arcs2, "err-or-declared", None, f"{levels[-1]['type']}|container.wrong-key", top, order=erng.sample(range(len(arcs2)), len(arcs2)),
                   extra=dict(enc_info, corrupt_level=depth - 1, corrupt_where="top", region="container.wrong-key", container_damage="wrong-key", container_layout="enc-" + wused))
    for c_ in cases[n_before:]:
        c_["name"] = ename
        c_["lookups"] = spellings(ename)
        c_["class"] = c_["class"] + f"|base={base_kind}|patches={'+'.join(eused)}|fix={int(fix_base)}{int(fix_patch)}"
    return cases


def generate_corpus(tier, seed, outdir):
    """Deterministic in (tier, seed). Writes pc-<idx>.json manifests (+ archives) into outdir; returns counters."""
    ng = 600 if tier == "thorough" else 96
    os.makedirs(outdir, exist_ok=True)
    idx = 0
    cnt = {"groups": ng, "direct_cases": 0, "chain_cases": 0, "isolated_cases": 0, "blob_variants_generated": 0, "patches_selfchecked_by_reference": 0}
    with ProcessPoolExecutor(max_workers=sup.NCPU) as ex:
        for cases in ex.map(gen_group, [(g, seed, tier, outdir) for g in range(ng)], chunksize=2):
            for c in cases:
                c["idx"] = idx
                with open(os.path.join(outdir, f"pc-{idx}.json"), "w") as fh:
                    json.dump(c, fh)
                idx += 1
                cnt[c["kind"] + "_cases"] += 1
                if c["kind"] == "chain" and c.get("container_damage"):
                    cnt["chain_cases_container_damage"] = cnt.get("chain_cases_container_damage", 0) + 1
                if c["kind"] == "direct":
                    cnt["blob_variants_generated"] += len(c["blobs"])
                    cnt["patches_selfchecked_by_reference"] += 1
    cnt["patch_cases_total"] = idx
    return cnt


def selftest_encoder():
    """The encoder/decoder pair on the repository's own hand-made test patches (patch/apply.rs tests) and RLE vectors
    (compression/algorithms/rle.rs tests): a disagreement here means the harness is wrong, not the repository."""
    comp = bytes([8, 0, 0, 0, 0x82, 0x41, 0x42, 0x43, 0x01, 0x81, 0x44, 0x45])
    if rle_decode(comp, 8) != bytes([0x41, 0x42, 0x43, 0, 0, 0x44, 0x45, 0]):
        raise sup.Broken("C08 reference RLE decoder disagrees with the documented vector")
    rng = random.Random(5)
    for style in ("literal", "skip1", "trim", "mixed"):
        for blob in (b"", b"\0", b"\0" * 300, b"ABC\0\0DE\0", bytes(range(256)) * 3, b"\0" * 129 + b"x" + b"\0" * 128, bytes(rng.getrandbits(1) * rng.getrandbits(8) for _ in range(2000))):
            if rle_decode(rle_encode(blob, rng, style), len(blob)) != blob:
                raise sup.Broken(f"C08 RLE encoder/decoder round trip failed ({style})")
    # test_apply_bsd0_simple / wrapping / multiple control blocks
    for old, new, ctrl, data, extra in (
            (bytes([0x10, 0x20, 0x30]), bytes([0x15, 0x27, 0xFF]), [(2, 1, 1)], bytes([5, 7]), bytes([0xFF])),
            (bytes([0xFF]), bytes([0x01]), [(1, 0, 0)], bytes([2]), b""),
            (bytes([0x10, 0x20, 0x30, 0x40]), bytes([0x15, 0x27, 0xFF, 0xAA]), [(2, 1, 1), (0, 1, 0)], bytes([5, 7]), bytes([0xFF, 0xAA]))):
        if bsdiff_apply(bsdiff_blob(ctrl, data, extra, len(new)), old) != new:
            raise sup.Broken("C08 reference bsdiff apply disagrees with the repository's hand-made test patch")


def _fix_crash_signatures(res, pdir):
    """A worker death is attributed by sup to the open case with a generic 'crash|<kind>|<site>' signature; add the
    semantic features of that case (patch type and corrupted region, from the manifest) so the signature names the defect."""
    for sig in list(res.violations.keys()):
        if not sig.startswith("crash|"):
            continue
        w = res.violations[sig]
        rp = w.get("replay") or {}
        if "--mode" in (rp.get("args") or []) and "patch" in rp.get("args"):
            try:
                man = json.load(open(os.path.join(pdir, f"pc-{rp['only']}.json")))
            except Exception:  # noqa
                continue
            if man["kind"] == "isolated":
                tag = f"{man['type']}|{man['mut']['r']}"
            else:
                tag = f"{man.get('type', man.get('sigtag', '?'))}|{man['kind']}"
            kind = sig.split("|")[1]
            new = f"patch-crash|{kind}|{tag}"
            n = res.viol_counts.pop(sig)
            res.violations.pop(sig)
            w["sig"] = new
            res.viol_counts[new] = res.viol_counts.get(new, 0) + n
            res.violations.setdefault(new, w)


def run(tier, seed, scratch, t0):
    selftest_encoder()
    binpath = sup.build("vh-mpq", "c08")
    res = sup.Result("C08")
    # ---- part A: chain histories
    sup.run_workers(res, binpath, ["--mode", "chain"], tier, seed, scratch, nshards=16, case_timeout=120, label="A", env_extra={"RUST_BACKTRACE": "0"})
    res.samples = res.samples[:3]       # leave room for samples of part B
    # ---- part B: patches
    pdir = os.path.join(scratch, "P")
    cnt = generate_corpus(tier, seed, pdir)
    for k, v in cnt.items():
        res.add_counter("corpus_" + k, v)
    # crash attribution needs one open case per process death: the generic signature is refined afterwards
    sup.run_workers(res, binpath, ["--mode", "patch", "--dir", pdir], tier, seed, scratch, nshards=16, case_timeout=120, label="B", env_extra={"RUST_BACKTRACE": "0"})
    _fix_crash_signatures(res, pdir)
    # evidence: counts instead of long lists
    shapes = res.extras.pop("final_chain_shapes", None) or []
    res.add_counter("distinct_final_chain_shapes", len(shapes))
    res.extras["final_chain_shapes_sample"] = shapes[:: max(1, len(shapes) // 12)][:12]
    for k in [k for k in res.extras if k.startswith("parallel_open_orders|")]:
        v = res.extras.pop(k)
        res.add_counter("distinct_" + k.replace("|", "_"), len(v))
        res.extras[k + "|sample"] = v[:8]
    return sup.finish(res, tier, seed, "exploration", RULE, t0, assumptions=ASSUME, min_cases=2000)


def replay(rp, scratch):
    r = rp["replay"]
    args = list(r.get("args") or [])
    if "--dir" in args:
        pdir = os.path.join(scratch, "P")
        generate_corpus(r["tier"], int(r["seed"]), pdir)
        args[args.index("--dir") + 1] = pdir
        r["args"] = args
    if rp.get("signature", "").startswith("patch-crash|"):
        rp = dict(rp, signature="crash|" + rp["signature"][len("patch-crash|"):])   # a worker death reproduces by exit status
    return sup.generic_replay(rp, scratch, "vh-mpq")
