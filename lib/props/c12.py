"""C12 — writing an archive is all-or-nothing at the destination path (DESIGN.md §6 C12, §3 M5).

The Rust worker (harness/vh-mpq/src/bin/c12.rs) performs ONE ArchiveBuilder::build or MutableArchive::compact
per process, bracketed by two marker syscalls.  This module

  1. runs a baseline of every scenario under strace and reads off the window of state-changing system calls
     between the markers (N per scenario),
  2. re-runs the scenario once per (k, mode): the k-th call of the window is killed on entry / failed with
     ENOSPC / failed with EIO (strace -e inject=, ptrace level: raw syscalls cannot bypass it),
     and, for error-mode runs that held, once more per later call of the error path (two-fault sequences),
  3. sweeps RLIMIT_FSIZE (set before exec) for genuine short writes, with SIGXFSZ ignored and default,
  4. judges the destination path post-mortem, after the faulted process has exited, with a separate
     `c12 --verify` process:  dest in {previous content | absent if it was absent | complete new archive}.

A run whose own strace log does not show the fault inside the marker window is inconclusive, never a pass.

strace detail (verified here, strace 6.1): `inject=SET:...:when=k` keeps one counter PER SYSCALL of the set, so
"the k-th call of the set" is addressed as (syscall name at k, its ordinal j since process start), both read from
the baseline log: `-e inject=<name>:...:when=j`.  Every injected run is checked against its own log.
"""
import hashlib
import json
import os
import re
import shutil
import subprocess
import threading
import time
from concurrent.futures import ThreadPoolExecutor

import sup

PROP = "C12"

# every call that can change file-system state (all known to strace on x86_64; checked with `strace -e trace=… true`)
SET = ["open", "openat", "creat", "write", "pwrite64", "writev", "pwritev", "pwritev2", "lseek", "ftruncate", "truncate", "fallocate",
       "fsync", "fdatasync", "rename", "renameat", "renameat2", "link", "linkat", "unlink", "unlinkat", "close",
       "copy_file_range", "sendfile", "fchmod", "chmod", "fchmodat", "mkdir", "mkdirat", "rmdir", "symlink", "symlinkat"]
SETNAMES = set(SET)
# scenarios whose operation READS files that are not the destination (source files registered by path, an external listfile, the source
# archive of a rebuild) or re-reads what it wrote (create, rebuild+verify), and the compact scenarios added with them, also get every
# read call of the window killed / failed: an I/O error on a source is an I/O error during the build
READS = ["read", "pread64", "readv", "preadv", "preadv2"]
MODES = ["kill", "ENOSPC", "EIO"]
HEADER_SIZE = {1: 32, 2: 44, 3: 68, 4: 208}

RULE = ("scenarios = ArchiveBuilder::build V1-V4 x {dest absent, dest present (older valid archive, different content)} x {5 small files, one 3-sector file} "
        "+ MutableArchive::compact on V1 and V4 archives holding deleted entries and two multi-sector members (+ on V1/V2 with unflushed, content-neutral modifications pending in the session, so that the handle is dirty when a failed compact is dropped) "
        "+ later legs: builds with sector checksums and a full (attributes) file, with ListfileOption::External (listfile read from a file on disk), without listfile, with members registered by path "
        "(add_file / add_file_with_options / add_file_with_encryption: read from disk during build()); wow_mpq::rebuild_archive V1/V4 x {target absent, present}, target == source (V1, V3), RebuildOptions.verify (V2); "
        "OpenOptions::version(v).create(path) V1-V4 over an existing destination (+ V2 absent); compact on V2, V3 and on a V1 archive carrying (attributes); SFileCreateArchive2 (V1, V3, V4 + attribute flags) over an existing destination. "
        "In these later scenarios the read calls (read/pread64/readv/preadv) belong to the fault set as well: a failing read of a source file, of the external listfile, of the source archive is an I/O error during the build. "
        "Content seeded by VERIF_SEED. Per scenario a baseline under strace gives the window of N "
        "state-changing system calls between the worker's two marker syscalls; one case = one process run with one fault point: (k, mode) with mode in {kill on entry, ENOSPC, EIO} "
        "at the k-th call of the window; a fault sequence (error at k, then kill / EIO at a later call of the resulting error path); or an RLIMIT_FSIZE byte limit x "
        "{SIGXFSZ ignored => short write then EFBIG, default => death at that byte}. Both tiers: every k x every mode x every scenario of the original set (build, compact, compact-pending, ffi-create and their +layouts); "
        "the later legs: thorough every k, quick per kind of call (name@target) every occurrence up to four, else the first two, the last two and every third in between, and fault sequences only behind the ENOSPC runs (k_executed lists them per scenario). quick: 16 size limits per scenario "
        "{0,1,31,32,33,header size,size-1 + evenly spaced}, fault sequences on the first and last call of each error path; thorough: every byte limit 0..size-1, every call of each error path. "
        "Oracle, post-mortem by a separate process after the faulted one has exited: sha256(dest) == sha256(old) | dest absent (only if it was absent) | dest accepted by the "
        "read-back oracle (opens, every expected file found, right size, byte-identical, listed - not demanded of an archive built without listfile; for create / SFileCreateArchive*: opens, lists, holds no user file); "
        "BUILD-ERR => dest unchanged (ArchiveBuilder::build and rebuild_archive without verify); BUILD-OK => complete new archive. "
        "A case is non-trivial iff its own strace log shows the fault(s) fired inside the window; distinct_nontrivial = distinct (scenario, k-or-limit, mode) points that fired. "
        "Runs whose fault did not fire in the window are inconclusive, never held. exhaustive (thorough) refers to the single-fault space of the listed scenarios at this seed: "
        "every call of the window x 3 modes and every byte limit x 2 dispositions.")
ASSUME = [
    "C-API scenarios (ffi-create-*: SFileCreateArchive + SFileCloseArchive, worker vh-ffi/c12_ffi) are build + open of the result: a reported failure after a completed build (the open failed) leaves the complete "
    "new archive, which the two-state clause allows; 'an error leaves the destination untouched' is judged for ArchiveBuilder::build only",
    "OpenOptions::create (= ArchiveBuilder::build + open of the result) and rebuild_archive with RebuildOptions.verify (= build + verification pass) are judged like the C-API creation: an error "
    "reported after the completed build leaves the complete new archive (counted err_after_commit|<leg>); rebuild_archive without verify ends with the build, so its error must leave the target untouched. "
    "rebuild_archive with target == source: previous content = the source archive, complete new = the rebuilt archive holding every member of the source",
    "files the operation reads (source files of add_file*, the external listfile, the source archive of a rebuild) are written once per scenario before any faulted run, outside the window, in a directory named aux; "
    "calls on them appear as <call>@source in signatures and counters",
    "destination layouts '+symlink' (a symbolic link to the previous archive) and '+tmpname' (a file name ending in .tmp) are judged at the same path: what the path resolves to afterwards",
    "power-loss semantics are out of reach: there is no fsync before the rename, but page-cache loss cannot be produced by process faults, and the statement speaks of process death and I/O errors only",
    "fault points are single faults at every call of the fault-free path, plus two-fault sequences (error at k, then kill / EIO at a later call of the error path that follows); a second fault on the same "
    "syscall name as the first cannot be expressed with strace's one-rule-per-syscall injector and is left out (counted); longer sequences are not explored",
    "the fault set is the state-changing calls (the statement lists open/write/pwrite/lseek/fsync/rename/unlink); in the original scenarios read/pread are not faulted, in the later legs they are; fstat/mmap never",
    "compact set-up: the archive with deleted entries is made by MutableArchive add+remove+flush in a separate process; if that does not yield a readable archive on the tree under test "
    "(V3+ on this tree, C06's domain) the set-up falls back to remove-only, recorded per scenario as setup_variant and in notes",
    "the clause 'a build that returns an error leaves the previous destination untouched' is applied to ArchiveBuilder::build; for compact the first sentence is applied (dest = previous content or the complete "
    "compacted archive) and 'compact returned Err although the compacted archive is already in place' (failure while re-opening after the rename) is counted (compact_err_after_commit), not flagged",
    "strace error injection fails the call without executing it; kill-after-k is the same file-system state as kill-on-entry-(k+1)",
    "leftover .tmp* siblings of the destination are allowed by the statement and only counted",
    "the worker is single-threaded; strace's per-syscall `when=` counter is addressed through (name, ordinal) taken from the baseline log and verified in every run's own log",
]

_lock = threading.Lock()


# ----------------------------------------------------------------------------------------------- helpers

def sha256(path):
    h = hashlib.sha256()
    with open(path, "rb") as f:
        for b in iter(lambda: f.read(1 << 16), b""):
            h.update(b)
    return h.hexdigest()


def concurrent_stage(ctx, res, tier, seed, scratch):
    """Two or three builds released at the same moment against one destination (the 'error' a build meets is another build):
    whatever each reports, the destination afterwards is one of the complete archives or its previous content."""
    d = os.path.join(scratch, "concurrent")
    os.makedirs(d, exist_ok=True)
    rounds = 600 if tier == "thorough" else 80
    try:
        p = ctx.worker(["--concurrent", str(rounds), "--dest", d], cwd=d, timeout=900)
    except subprocess.TimeoutExpired:
        res.add_inconclusive("concurrent-builds-timeout")
        return
    seen = 0
    for line in p.stdout.splitlines():
        try:
            r = json.loads(line)
        except ValueError:
            continue
        if "setup" in r:
            res.add_inconclusive("concurrent-builds-setup-failed")
            continue
        seen += 1
        res.add_counter("concurrent_build_rounds", 1)
        res.add_counter("concurrent_builds_" + ("all_ok" if all(x == "ok" for x in r["statuses"]) else "some_err"), 1)
        res.add_counter("concurrent_dest_" + r["dest"].split("-")[0], 1)
        ok_any = any(x == "ok" for x in r["statuses"])
        bad = None
        if r["dest"] == "other":
            bad = ("mixed", "the destination is neither one of the complete archives nor the previous content: " + "; ".join(r["complaints"])[:300])
        elif r["dest"] == "absent" and (r["had_old"] or ok_any):
            bad = ("absent", "the destination is gone")
        elif r["dest"] == "old" and ok_any:
            bad = ("old-after-ok", "a build reported success and the destination still holds the previous content")
        elif any(x.startswith("panic") for x in r["statuses"]):
            bad = ("panic", "a build panicked: " + str(r["statuses"]))
        key = f"concurrent-builds|{r['threads']}|{'old' if r['had_old'] else 'fresh'}"
        res.classes.add(key)
        if bad:
            sig = f"concurrent-builds|dest-{bad[0]}"
            res.add_violation(sig, f"{r['threads']} builds at once against one destination ({', '.join(r['scenarios'])}; statuses {r['statuses']}): {bad[1]}",
                              r, {"property": PROP, "tier": tier, "seed": int(seed), "scenario": "concurrent-builds", "point": {"kind": "concurrent", "round": r["round"]}})
            res.verdicts["viol"] += 1
        else:
            res.verdicts["held"] += 1
        res.cases += 1
    if seen < rounds:
        res.add_inconclusive("concurrent-builds-incomplete")
        res.notes.append(f"concurrent builds: {seen} of {rounds} rounds reported; worker exit {p.returncode}: {(p.stderr or '')[-300:]}")


def rodir_stage(ctx, res, scen, tier, seed, scratch):
    """The caller may write the archive file but not create files next to it (directory 0555, file 0666, caller uid 65534):
    a build there either fails and leaves the previous archive as it was, or produces the complete new one - also when the
    write-size limit cuts it short. (Only expressible when the supervisor runs as root: it needs another uid to drop to.)"""
    if os.geteuid() != 0:
        res.add_counter("rodir_stage_skipped_supervisor_not_root", 1)
        return
    limits = [None, ("fsize-kill", 200), ("fsize-ign", 200), ("fsize-ign", 3000), ("fsize-kill", 9000)]
    if tier == "thorough":
        limits += [(m, l) for m in ("fsize-kill", "fsize-ign") for l in (1, 33, 512, 1000, 2048, 4096, 20000)]
    jobs = [(n, lim) for n in ("build-v1-present-small", "build-v2-present-big", "build-v4-present-small", "build-v3-present-big") if n in scen for lim in limits]

    def one(job):
        name, lim = job
        sc = scen[name]
        tag = "plain" if lim is None else f"{lim[0]}-{lim[1]}"
        rd = os.path.join(scratch, "rodir", f"{name}-{tag}")
        shutil.rmtree(rd, ignore_errors=True)
        os.makedirs(rd)
        dest = os.path.join(rd, "dest.mpq")
        shutil.copyfile(sc["old"], dest)
        os.chmod(dest, 0o666)
        os.chmod(rd, 0o555)
        cmd = [ctx.bin_for(sc), "--seed", str(ctx.seed), "--scenario", sc.get("base", sc["name"]), "--variant", sc.get("variant", "full"), "--dest", dest]
        if lim is not None:
            sig = "--ignore-signal=XFSZ" if lim[0] == "fsize-ign" else "--default-signal=XFSZ"
            cmd = ["prlimit", f"--fsize={lim[1]}", "--core=0", "env", sig] + cmd
        out = {"scenario": name, "tag": tag}
        try:
            p = subprocess.run(cmd, cwd="/", env=ctx.env, stdout=subprocess.PIPE, stderr=subprocess.PIPE, text=True, errors="replace", timeout=60,
                               user=65534, group=65534, extra_groups=[])
        except (subprocess.TimeoutExpired, OSError, ValueError) as ex:
            os.chmod(rd, 0o755)
            out["inconc"] = f"run failed: {type(ex).__name__}"
            return out
        os.chmod(rd, 0o755)
        st, msg = status_of(p.stdout)
        if p.returncode < 0:
            st = f"KILLED-{-p.returncode}"
        out["status"], out["msg"] = st, msg
        left = sorted(x for x in os.listdir(rd) if x != "dest.mpq")
        out["leftovers"] = left
        if not os.path.exists(dest):
            out["state"] = "absent"
        else:
            dg = sha256(dest)
            if dg == sha256(sc["old"]):
                out["state"] = "old"
            else:
                ok, why = ctx.verify(sc, dest, dg)
                out["state"] = "new-complete" if ok else "partial"
                out["why"] = why
                out["size"] = os.path.getsize(dest)
        shutil.rmtree(rd, ignore_errors=True)
        return out

    with ThreadPoolExecutor(max_workers=sup.NCPU) as ex:
        outs = list(ex.map(one, jobs))
    for r in outs:
        res.cases += 1
        if r.get("inconc"):
            res.add_inconclusive("rodir-" + r["inconc"])
            continue
        res.add_counter("rodir_runs", 1)
        res.add_counter(f"rodir_status_{r['status']}", 1)
        res.add_counter(f"rodir_dest_{r['state']}", 1)
        st, state = r["status"], r["state"]
        bad = None
        if state in ("partial", "absent"):
            bad = f"dest-{state}"
        elif st == "BUILD-OK" and state != "new-complete":
            bad = "ok-but-old"
        elif st == "BUILD-ERR" and state != "old":
            bad = "err-but-dest-changed"
        elif st == "BUILD-PANIC":
            bad = "panic"
        res.classes.add(f"rodir|{r['scenario']}|{r['tag']}")
        if bad:
            res.verdicts["viol"] += 1
            res.add_violation(f"unwritable-directory|{bad}|{'limit' if r['tag'] != 'plain' else 'plain'}",
                              f"{r['scenario']} as uid 65534 with the destination (0666) in a directory it may not write (0555), {r['tag']}: worker says {st} {r.get('msg', '')[:120]}; destination afterwards: {state} {r.get('why', '')[:200]}",
                              r, {"property": PROP, "tier": tier, "seed": int(seed), "scenario": r["scenario"], "point": {"kind": "rodir", "tag": r["tag"]}})
        else:
            res.verdicts["held"] += 1


def cli_stage(ctx, res, scen, tier, seed, scratch):
    """The tool's `mpq create` is a build as well: one that fails (an input that is not there, two inputs under one archive
    name, an input that is a directory) leaves whatever stood under the destination name as it was - a valid archive, a
    damaged one, a file that is no archive at all - and creates nothing when there was nothing."""
    cli = sup.build_cli()
    base = os.path.join(scratch, "cli")
    os.makedirs(base, exist_ok=True)
    oldarc = next((scen[n]["old"] for n in ("build-v1-present-small", "build-v2-present-small") if n in scen and scen[n].get("old")), None)
    if not oldarc:
        res.add_inconclusive("cli-stage-no-previous-archive")
        return
    rnd = __import__("random").Random(f"c12-cli-{seed}")
    prev_kinds = {
        "valid-archive": open(oldarc, "rb").read(),
        "damaged-archive": b"\0" * 512 + open(oldarc, "rb").read()[512:],
        "not-an-archive": ("notes kept under this name\n" * 40).encode(),
        "empty-file": b"",
        "absent": None,
    }
    jobs = []
    for pk in prev_kinds:
        for fail in ("missing-input", "same-name-twice", "directory-input"):
            for version in (("v1", "v4") if tier == "thorough" else ("v2",)):
                jobs.append((pk, fail, version))

    def one(job):
        pk, fail, version = job
        d = os.path.join(base, f"{pk}-{fail}-{version}")
        shutil.rmtree(d, ignore_errors=True)
        os.makedirs(os.path.join(d, "in", "a"))
        os.makedirs(os.path.join(d, "in", "b"))
        for sub, nm in (("a", "one.txt"), ("a", "two.bin"), ("b", "one.txt")):
            with open(os.path.join(d, "in", sub, nm), "wb") as fh:
                fh.write(rnd.randbytes(300 + rnd.randrange(2000)))
        dest = os.path.join(d, "dest.mpq")
        if prev_kinds[pk] is not None:
            with open(dest, "wb") as fh:
                fh.write(prev_kinds[pk])
        before = sha256(dest) if os.path.exists(dest) else None
        adds = {"missing-input": [os.path.join(d, "in", "a", "one.txt"), os.path.join(d, "in", "a", "nowhere.bin"), os.path.join(d, "in", "a", "two.bin")],
                "same-name-twice": [os.path.join(d, "in", "a", "one.txt"), os.path.join(d, "in", "a", "two.bin"), os.path.join(d, "in", "b", "one.txt")],
                "directory-input": [os.path.join(d, "in", "a", "two.bin"), os.path.join(d, "in", "b")]}[fail]
        cmd = [cli, "mpq", "create", dest, "--version", version, "--with-listfile"]
        for a in adds:
            cmd += ["--add", a]
        try:
            p = subprocess.run(cmd, cwd=d, env=dict(ctx.env, RUST_LOG="off"), stdout=subprocess.PIPE, stderr=subprocess.PIPE, text=True, errors="replace", timeout=120)
        except subprocess.TimeoutExpired:
            return {"job": job, "inconc": "timeout"}
        after = sha256(dest) if os.path.exists(dest) else None
        left = sorted(x for x in os.listdir(d) if x not in ("dest.mpq", "in"))
        out = {"job": list(job), "rc": p.returncode, "before": before, "after": after, "leftovers": left, "stderr": p.stderr[-300:]}
        if p.returncode == 0 and after is not None and after != before:
            q = subprocess.run([cli, "mpq", "list", dest], cwd=d, env=dict(ctx.env, RUST_LOG="off"), stdout=subprocess.PIPE, stderr=subprocess.PIPE, text=True, errors="replace", timeout=120)
            out["lists"] = q.returncode == 0
        shutil.rmtree(d, ignore_errors=True)
        return out

    with ThreadPoolExecutor(max_workers=sup.NCPU) as ex:
        outs = list(ex.map(one, jobs))
    for r in outs:
        res.cases += 1
        if r.get("inconc"):
            res.add_inconclusive("cli-create-" + r["inconc"])
            continue
        pk, fail, version = r["job"]
        res.add_counter("cli_create_runs", 1)
        res.add_counter("cli_create_" + ("failed" if r["rc"] != 0 else "succeeded"), 1)
        bad = None
        if r["rc"] != 0 and r["after"] != r["before"]:
            bad = ("failed-create-changed-destination", "gone" if r["after"] is None else "changed")
        elif r["rc"] != 0 and r["leftovers"]:
            bad = ("failed-create-left-files", str(r["leftovers"]))
        elif r["rc"] == 0 and (r["after"] is None or r["after"] == r["before"] or not r.get("lists", False)):
            bad = ("create-exit0-without-archive", "no readable archive under the destination name")
        res.classes.add(f"cli-create|{pk}|{fail}|{version}")
        if bad:
            res.verdicts["viol"] += 1
            res.add_violation(f"cli-create|{bad[0]}|previous={pk}",
                              f"`mpq create` ({fail}, {version}) over a destination that held: {pk}; exit {r['rc']}; destination afterwards {bad[1]}; stderr: {r['stderr'][-160:]}",
                              r, {"property": PROP, "tier": tier, "seed": int(seed), "scenario": "cli-create", "point": {"kind": "cli"}})
        else:
            res.verdicts["held"] += 1


def all_scenarios():
    out = []
    for v in (1, 2, 3, 4):
        for st in ("absent", "present"):
            for kind in ("small", "big"):
                out.append(f"build-v{v}-{st}-{kind}")
    out += ["compact-v1", "compact-v4", "compact-v1-pending", "compact-v2-pending"]
    # builds that carry sector checksums + an (attributes) file, take their listfile from a file on disk, have no listfile, or
    # read their members from files on disk during build()
    out += ["build-v2-present-small-attrs", "build-v4-absent-small-attrs", "build-v2-present-small-extlist", "build-v1-absent-small-nolist",
            "build-v3-present-small-nolist", "build-v1-present-small-disk", "build-v2-absent-big-disk", "build-v4-present-small-disk"]
    # rebuild_archive writes a complete archive at its target path (-same: the target is the source; -verify: RebuildOptions.verify)
    out += ["rebuild-v1-absent", "rebuild-v1-present", "rebuild-v4-absent", "rebuild-v4-present", "rebuild-v1-same", "rebuild-v3-same", "rebuild-v2-present-verify"]
    # OpenOptions::create: an empty archive is built at the path, then opened
    out += ["create-v1-present", "create-v2-present", "create-v3-present", "create-v4-present", "create-v2-absent"]
    # compaction of V2 / V3 archives and of an archive that carries an (attributes) file
    out += ["compact-v2", "compact-v3", "compact-v1-attrs"]
    # other shapes of the destination path ("<scenario>+<layout>"): a symbolic link to the previous archive; a file name that
    # itself ends in .tmp (a working copy) - the same operations, judged at the same path
    # the C API's way of creating an archive (worker vh-ffi/c12_ffi): creation dispositions over an existing / an absent destination
    out += ["ffi-create-always", "ffi-create-truncate", "ffi-create-new", "ffi-create-truncate+symlink"]
    out += ["ffi-create2-v1", "ffi-create2-v3", "ffi-create2-v4-attrs"]
    out += ["build-v1-present-small+symlink", "build-v4-present-small+symlink", "compact-v1+symlink", "build-v2-present-small+tmpname", "compact-v1+tmpname", "compact-v2-pending+tmpname"]
    return out


def sc_fields(name):
    base, _, layout = name.partition("+")
    f = _sc_fields(base)
    f["base"] = base
    f["layout"] = layout or "plain"
    f["destname"] = "dest.mpq.tmp" if layout == "tmpname" else "dest.mpq"
    return f


def place_dest(sc, d):
    """Create the destination path of one run in directory d (previous content, if the scenario has one) and return it."""
    dest = os.path.join(d, sc["destname"])
    if sc["layout"] == "symlink":
        real = os.path.join(d, "real.mpq")
        if sc["old"]:
            shutil.copyfile(sc["old"], real)
        os.symlink("real.mpq", dest)
    elif sc["old"]:
        shutil.copyfile(sc["old"], dest)
    return dest


def _sc_fields(name):
    """op = entry point as it appears in signatures; strict_err: 'an error leaves the destination untouched' is demanded (a build, and
    nothing after it); reads: read calls are part of the fault window; needs_aux: the operation reads files prepared beforehand;
    family: the leg the scenario belongs to (evidence counters)."""
    p = name.split("-")
    if p[0] == "ffi" and p[1] == "create2":
        return {"op": "ffi-create2", "ver": int(p[2][1:]), "present": True, "kind": "empty", "ffi": True, "strict_err": False, "reads": True, "family": "ffi-create2"}
    if p[0] == "ffi":
        return {"op": "build", "ver": 2, "present": p[2] != "new", "kind": "empty", "ffi": True, "strict_err": False, "family": "ffi-create"}
    if p[0] == "build":
        opt = p[4] if len(p) > 4 else ""
        return {"op": "build", "ver": int(p[1][1:]), "present": p[2] == "present", "kind": p[3], "strict_err": True, "opt": opt,
                "reads": opt in ("disk", "extlist"), "needs_aux": opt in ("disk", "extlist"), "family": "build" + ("+" + opt if opt else "")}
    if p[0] == "rebuild":
        verify, same = p[3:] == ["verify"], p[2] == "same"
        return {"op": "rebuild" + ("-in-place" if same else "") + ("+verify" if verify else ""), "ver": int(p[1][1:]), "present": p[2] != "absent", "kind": "small",
                "strict_err": not verify, "reads": True, "needs_aux": not same, "family": "rebuild" + ("-same" if same else "") + ("+verify" if verify else "")}
    if p[0] == "create":
        return {"op": "create", "ver": int(p[1][1:]), "present": p[2] == "present", "kind": "empty", "strict_err": False, "reads": True, "family": "create"}
    opt = p[2] if len(p) > 2 else ""
    new = opt == "attrs" or (not opt and p[1] in ("v2", "v3"))
    return {"op": "compact", "ver": int(p[1][1:]), "present": True, "kind": "small", "strict_err": False, "reads": new,
            "family": "compact" + ("+" + opt if opt else "") + ("-" + p[1] if new and not opt else "")}


ORIGINAL_FAMILIES = ("build", "compact", "compact+pending", "ffi-create")


def quick_ks(sc, seed):
    """quick tier, scenarios of the later legs: per kind of call (name@target) of the window every occurrence if there are at most four,
    else the first two, the last two and every third in between (phase from the seed).  Every structurally different fault point stays in;
    the long runs of like calls (writes to the temp file, reads and seeks on a source) are thinned.  thorough: every k."""
    by = {}
    for c in sc["window"]:
        by.setdefault(f"{c['name']}@{c['target']}", []).append(c["k"])
    keep = set()
    for ks in by.values():
        if len(ks) <= 4:
            keep.update(ks)
        else:
            keep.update(ks[:2] + ks[-2:])
            keep.update(k for i, k in enumerate(ks) if (i + int(seed)) % 3 == 0)
    return keep


def sc_set(sc):
    return SET + READS if sc.get("reads") else SET


_LINE = re.compile(r"^(?:\[pid\s+\d+\]\s+|\d+\s+)?([a-z_0-9]+)\((.*)$")


def parse_log(text, names=None):
    """strace log -> dict(calls=[...], begin=index|None, end=index|None, killed=sig|None, exited=rc|None, signals=[...]).

    calls = every call of SET in program order since process start; begin/end = number of SET calls seen when the marker passed."""
    calls, begin, end, killed, exited, signals = [], None, None, None, None, []
    names = SETNAMES if names is None else names
    counts = {}
    fds = {}
    for line in text.splitlines():
        s = line.strip()
        if not s:
            continue
        if "+++ killed by " in s:
            killed = s.split("+++ killed by ", 1)[1].split()[0]
            continue
        if "+++ exited with " in s:
            try:
                exited = int(s.split("+++ exited with ", 1)[1].split()[0])
            except ValueError:
                pass
            continue
        body = re.sub(r"^(?:\[pid\s+\d+\]\s+|\d+\s+)", "", s)
        if body.startswith("--- SIG"):
            signals.append((body.split()[1], len(calls)))
            continue
        m = _LINE.match(s)
        if not m:
            continue
        name = m.group(1)
        if name == "access":
            if "/verif-marker-begin" in s:
                begin = len(calls)
            elif "/verif-marker-end" in s:
                end = len(calls)
            continue
        if name not in names:
            continue
        counts[name] = counts.get(name, 0) + 1
        r = s.rstrip()
        ret = r.rsplit("=", 1)[1].strip() if "=" in r else ""
        calls.append({"name": name, "ord": counts[name], "injected": r.endswith("(INJECTED)"), "unfinished": r.endswith("= ?"),
                      "efbig": " EFBIG " in r.rsplit("=", 1)[-1] + " ", "ret": ret[:60], "text": r[:170], "target": _target(name, m.group(2), ret, fds)})
    return {"calls": calls, "begin": begin, "end": end, "killed": killed, "exited": exited, "signals": signals}


def _pclass(path):
    """Semantic class of a path: the destination itself, a temp sibling, or something else."""
    b = os.path.basename(path)
    if "/aux/" in path:
        return "source"
    if b in ("dest.mpq", "dest.mpq.tmp"):
        return "dest"
    if b == "real.mpq":
        return "dest-link-target"
    if ".tmp" in b:
        return "temp"
    return "other"


_PATHS = re.compile(r'"((?:[^"\\]|\\.)*)"')


def _target(name, args, ret, fds):
    """What the call acts on, as a class (dest / temp / other / std), tracked through the fd table of the log.  Used in signatures so that
    'lseek on the archive being read' and 'lseek on the temp file being written' are different features."""
    paths = _PATHS.findall(args)
    if name in ("open", "openat", "creat"):
        cls = _pclass(paths[0]) if paths else "other"
        mret = re.match(r"^(\d+)", ret)
        if mret:
            fds[int(mret.group(1))] = cls
        return cls
    if name in ("rename", "renameat", "renameat2", "link", "linkat", "symlink", "symlinkat"):
        return "->".join(_pclass(x) for x in paths[:2]) if paths else "other"
    if name in ("unlink", "unlinkat", "truncate", "chmod", "fchmodat", "mkdir", "mkdirat", "rmdir"):
        return _pclass(paths[0]) if paths else "other"
    mfd = re.match(r"^\s*(\d+)", args)
    if name in ("copy_file_range", "sendfile"):
        # sendfile(out, in, …) / copy_file_range(in, off, out, off, …): name the written side
        if name == "sendfile" and mfd:
            return fds.get(int(mfd.group(1)), "other")
        m2 = re.match(r"^\s*\d+,\s*[^,]+,\s*(\d+)", args)
        return fds.get(int(m2.group(1)), "other") if m2 else "other"
    if mfd:
        fd = int(mfd.group(1))
        cls = "std" if fd <= 2 else fds.get(fd, "other")
        if name == "close" and not ret.startswith("-1") and ret != "?":
            fds.pop(fd, None)
        return cls
    return "other"


class Ctx:
    def __init__(self, binpath, seed, scratch, ffi_bin=None):
        self.bin = binpath
        self.ffi_bin = ffi_bin
        self.seed = int(seed)
        self.scratch = scratch
        self.env = dict(os.environ)
        self.env["VERIF_SEED"] = str(seed)
        self.env.pop("VERIF_LOG", None)
        self.env["RUST_BACKTRACE"] = "0"
        self.verify_cache = {}

    def bin_for(self, sc_or_name):
        n = sc_or_name if isinstance(sc_or_name, str) else sc_or_name.get("base", sc_or_name["name"])
        return self.ffi_bin if n.startswith("ffi-") else self.bin

    def worker(self, args, cwd, timeout=60):
        name = args[args.index("--scenario") + 1] if "--scenario" in args else ""
        return subprocess.run([self.bin_for(name), "--seed", str(self.seed)] + args, cwd=cwd, env=self.env, stdout=subprocess.PIPE, stderr=subprocess.PIPE,
                              text=True, errors="replace", timeout=timeout)

    def verify(self, sc, path, digest):
        """Separate process: does `path` open and read back every file expected of scenario sc?  Cached by content hash."""
        key = (sc["name"], digest)
        with _lock:
            if key in self.verify_cache:
                return self.verify_cache[key]
        p = self.worker(["--verify", path, "--scenario", sc.get("base", sc["name"]), "--variant", sc.get("variant", "full")], cwd=os.path.dirname(path))
        ok = p.returncode == 0 and p.stdout.startswith("VERIFY-OK")
        out = (ok, (p.stdout.strip() or p.stderr.strip())[:400] + (f" [exit {p.returncode}]" if p.returncode not in (0, 3) else ""))
        with _lock:
            self.verify_cache[key] = out
        return out


def strace_cmd(ctx, sc, dest, log=None, inject=None):
    cmd = ["strace", "-f", "-s", "24"]
    if log:
        cmd += ["-o", log]
    cmd += ["-e", "trace=" + ",".join(sc_set(sc)) + ",access"]
    if inject:
        cmd += ["-e", "inject=" + inject]
    cmd += [ctx.bin_for(sc), "--seed", str(ctx.seed), "--scenario", sc.get("base", sc["name"]), "--variant", sc.get("variant", "full"), "--dest", dest]
    if sc.get("aux"):
        cmd += ["--aux", sc["aux"]]
    return cmd


def status_of(stdout):
    for l in stdout.splitlines():
        for tag in ("BUILD-OK", "BUILD-ERR", "BUILD-PANIC", "SETUP-BAD"):
            if l.startswith(tag):
                return tag, l[len(tag):].strip()[:300]
    return "NONE", ""


# ------------------------------------------------------------------------------------- scenario set-up

def prepare(ctx, name):
    """make-old (if the scenario has a previous destination) + baseline under strace. Returns the scenario dict or raises Broken/returns {'failed': why}."""
    sc = dict(sc_fields(name))
    sc["name"] = name
    d = os.path.join(ctx.scratch, name)
    os.makedirs(d, exist_ok=True)
    sc["dir"] = d
    sc["old"] = None
    sc["variant"] = "full"
    if sc["present"]:
        old = os.path.join(d, "old.mpq")
        tried = []
        for variant in (["full", "remove-only"] if sc["op"] == "compact" else ["full"]):
            if os.path.exists(old):
                os.unlink(old)
            p = ctx.worker(["--make-old", "--scenario", sc["base"], "--variant", variant, "--dest", old], cwd=d)
            tried.append(f"{variant}: {p.stdout.strip()[:200]}")
            if p.returncode == 0 and p.stdout.startswith("SETUP-OK"):
                sc["variant"] = variant
                break
        else:
            return {"name": name, "failed": "set-up archive could not be produced: " + " | ".join(tried)}
        sc["setup_notes"] = tried[:-1]
        sc["old"] = old
        sc["sha_old"] = sha256(old)
        sc["old_size"] = os.path.getsize(old)
    if sc.get("needs_aux"):
        # (the directory is named aux: _pclass recognises what lies in it as a source of the operation)
        sc["aux"] = os.path.join(d, "aux")
        p = ctx.worker(["--make-aux", "--scenario", sc["base"], "--aux", sc["aux"]], cwd=d)
        if p.returncode != 0 or not p.stdout.startswith("SETUP-OK"):
            return {"name": name, "failed": "the files the operation reads could not be produced: " + p.stdout.strip()[:300]}
    p = ctx.worker(["--describe", "--scenario", sc["base"], "--variant", sc["variant"]], cwd=d)
    try:
        sc["describe"] = json.loads(p.stdout)
    except Exception:
        sc["describe"] = {"raw": p.stdout[:200]}
    # baseline
    bd = os.path.join(d, "baseline")
    os.makedirs(bd, exist_ok=True)
    dest = place_dest(sc, bd)
    log = os.path.join(bd, "strace.log")
    p = subprocess.run(strace_cmd(ctx, sc, dest, log=log), cwd=bd, env=ctx.env, stdout=subprocess.PIPE, stderr=subprocess.PIPE, text=True, errors="replace", timeout=120)
    st, msg = status_of(p.stdout)
    if not os.path.exists(log):
        raise sup.Broken(f"strace produced no log for the baseline of {name}: {p.stderr[-400:]}")
    pl = parse_log(open(log, errors="replace").read(), set(sc_set(sc)))
    if pl["begin"] is None or pl["end"] is None:
        return {"name": name, "failed": f"baseline did not pass both markers (status {st} {msg})"}
    if st != "BUILD-OK" or not os.path.exists(dest):
        return {"name": name, "failed": f"fault-free baseline did not succeed: {st} {msg}"}
    sha_new = sha256(dest)
    ok, why = ctx.verify(sc, dest, sha_new)
    if not ok:
        return {"name": name, "failed": f"fault-free baseline result is not accepted by the read-back oracle: {why}"}
    if sc["old"] and sha_new == sc["sha_old"]:
        return {"name": name, "failed": "fault-free baseline left the destination byte-identical to the previous content"}
    sc["sha_new"] = sha_new
    sc["size_new"] = os.path.getsize(dest)
    win = pl["calls"][pl["begin"]:pl["end"]]
    sc["window"] = [{"k": i + 1, "name": c["name"], "ord": c["ord"], "target": c["target"]} for i, c in enumerate(win)]
    sc["N"] = len(win)
    sc["prefix_calls"] = pl["begin"]
    leftovers = [x for x in os.listdir(bd) if x not in (sc["destname"], "real.mpq", "strace.log")]
    sc["baseline_leftovers"] = leftovers
    shutil.rmtree(bd, ignore_errors=True)
    return sc


# ------------------------------------------------------------------------------------------ one run

def run_point(ctx, sc, pt, keep=False):
    """Execute one faulted run and judge the destination post-mortem. Returns a result dict."""
    if pt["kind"] == "inject":
        tag = f"k{pt['k']}-{pt['mode']}"
    elif pt["kind"] == "inject2":
        tag = f"k{pt['k']}-{pt['mode1']}+{pt['name2']}{pt['ord2']}-{pt['mode2']}"
    else:
        tag = f"L{pt['limit']}-{pt['mode']}"
    rd = os.path.join(sc["dir"], tag)
    shutil.rmtree(rd, ignore_errors=True)
    os.makedirs(rd)
    dest = place_dest(sc, rd)
    out = {"scenario": sc["name"], "point": pt, "tag": tag}
    try:
        if pt["kind"] == "inject":
            log = os.path.join(rd, "strace.log")
            what = "signal=KILL" if pt["mode"] == "kill" else f"error={pt['mode']}"
            cmd = strace_cmd(ctx, sc, dest, log=log, inject=f"{pt['name']}:{what}:when={pt['ord']}")
            p = subprocess.run(cmd, cwd=rd, env=ctx.env, stdout=subprocess.PIPE, stderr=subprocess.PIPE, text=True, errors="replace", timeout=60)
            logtext = open(log, errors="replace").read() if os.path.exists(log) else ""
        elif pt["kind"] == "inject2":
            # a fault sequence: the k-th call fails with an error, then a call of the error path that follows is killed / failed as well
            log = os.path.join(rd, "strace.log")
            what2 = "signal=KILL" if pt["mode2"] == "kill" else f"error={pt['mode2']}"
            cmd = strace_cmd(ctx, sc, dest, log=log, inject=f"{pt['name']}:error={pt['mode1']}:when={pt['ord']}")
            i = cmd.index(ctx.bin_for(sc))
            cmd[i:i] = ["-e", f"inject={pt['name2']}:{what2}:when={pt['ord2']}"]
            p = subprocess.run(cmd, cwd=rd, env=ctx.env, stdout=subprocess.PIPE, stderr=subprocess.PIPE, text=True, errors="replace", timeout=60)
            logtext = open(log, errors="replace").read() if os.path.exists(log) else ""
        else:
            # RLIMIT_FSIZE is set before exec (prlimit), SIGXFSZ disposition before exec (env); strace writes its log to a pipe,
            # which the file-size limit does not apply to
            sig = "--ignore-signal=XFSZ" if pt["mode"] == "fsize-ign" else "--default-signal=XFSZ"
            cmd = ["prlimit", f"--fsize={pt['limit']}", "--core=0", "env", sig] + strace_cmd(ctx, sc, dest)
            p = subprocess.run(cmd, cwd=rd, env=ctx.env, stdout=subprocess.PIPE, stderr=subprocess.PIPE, text=True, errors="replace", timeout=60)
            logtext = p.stderr
    except subprocess.TimeoutExpired:
        out.update({"verdict": "inconc", "why": "run-timeout"})
        if not keep:
            shutil.rmtree(rd, ignore_errors=True)
        return out
    pl = parse_log(logtext, set(sc_set(sc)))
    st, msg = status_of(p.stdout)
    out["status"], out["msg"], out["rc"] = st, msg, p.returncode
    # ---- did the fault fire inside the window, according to this run's own log?
    fired, at = False, None
    b, e = pl["begin"], pl["end"]
    if b is not None:
        inwin = pl["calls"][b:(e if e is not None else len(pl["calls"]))]
        if pt["kind"] == "inject":
            if pt["mode"] == "kill":
                at = _killed_at(pl, inwin, e, pt["name"], pt["ord"])
            else:
                at = _injected_at(inwin, pt["name"], pt["ord"], pt["mode"])
                if at is not None:
                    j = inwin.index(at)
                    out["after"] = [{"name": c["name"], "ord": c["ord"], "target": c["target"]} for c in inwin[j + 1:]]
            fired = at is not None
        elif pt["kind"] == "inject2":
            a1 = _injected_at(inwin, pt["name"], pt["ord"], pt["mode1"])
            a2 = _killed_at(pl, inwin, e, pt["name2"], pt["ord2"]) if pt["mode2"] == "kill" else _injected_at(inwin, pt["name2"], pt["ord2"], pt["mode2"])
            if a1 is not None and a2 is not None and inwin.index(a1) < inwin.index(a2):
                fired, at = True, a2
        elif pt["mode"] == "fsize-ign":
            for i, c in enumerate(inwin):
                if c["efbig"]:
                    fired, at = True, c
                    out["short_write"] = bool(i > 0 and inwin[i - 1]["name"] == c["name"] and re.match(r"^\d+$", inwin[i - 1]["ret"]) is not None
                                              and _short(inwin[i - 1]))
                    break
        else:
            if pl["killed"] == "SIGXFSZ" and e is None and any(s[0] == "SIGXFSZ" and s[1] >= b for s in pl["signals"]):
                fired, at = True, (inwin[-1] if inwin else None)
                out["short_write"] = bool(len(inwin) >= 2 and inwin[-2]["name"] == inwin[-1]["name"] and _short(inwin[-2]))
    out["fired"] = fired
    out["syscall"] = f"{at['name']}@{at['target']}" if at else (f"{pt['name']}@{pt.get('target', '?')}" if pt.get("name") else "?")
    out["at"] = at["text"] if at else None
    # ---- post-mortem state of the destination path
    listing = sorted(os.listdir(rd))
    out["leftovers"] = [x for x in listing if x not in (sc["destname"], "real.mpq", "strace.log")]
    if not os.path.lexists(dest):
        state, vwhy = "absent", ""
    elif not os.path.isfile(dest):      # (follows a symbolic link: a dangling link is "other")
        state, vwhy = "other", "destination is not a regular file"
    else:
        dg = sha256(dest)
        out["dest_size"] = os.path.getsize(dest)
        if sc["old"] and dg == sc["sha_old"]:
            state, vwhy = "old", ""
        else:
            ok, vwhy = ctx.verify(sc, dest, dg)
            state = "new-complete" if ok else "other"
    out["dest_state"] = state
    clause = judge(sc, st, state)
    if st == "SETUP-BAD":
        out.update({"verdict": "inconc", "why": "worker-setup-failed"})
    elif clause:
        mode = pt["mode"]
        sig = f"{clause}|{sc['op']}|v{sc['ver']}|dest-{'present' if sc['old'] else 'absent'}{'' if sc['layout'] == 'plain' else '-' + sc['layout']}|{mode}|{out['syscall']}"
        out["verdict"] = "viol"
        out["sig"] = sig
        out["what"] = (f"{sc['name']}: fault {tag} at {out['syscall']} ({'fired in window' if fired else 'NOT seen in window'}); worker status {st} {msg!r}; "
                       f"destination afterwards: {describe_state(state, out.get('dest_size'), sc)}{(' — ' + vwhy) if vwhy else ''}")
        out["detail"] = {"scenario": sc["name"], "point": pt, "status": st, "msg": msg, "dest_state": state, "dest_size": out.get("dest_size"),
                         "old_size": sc.get("old_size"), "new_size": sc["size_new"], "verify": vwhy, "listing": listing,
                         "strace_tail": logtext.splitlines()[-14:], "describe": sc.get("describe")}
    elif not fired:
        out.update({"verdict": "inconc", "why": f"fault-not-fired-in-window:{pt['mode']}"})
    else:
        out["verdict"] = "held"
    if not keep:
        shutil.rmtree(rd, ignore_errors=True)
    return out


def _injected_at(inwin, name, ordinal, errno):
    for c in inwin:
        if c["injected"] and c["name"] == name and c["ord"] == ordinal and errno in c["ret"]:
            return c
    return None


def _killed_at(pl, inwin, end, name, ordinal):
    if pl["killed"] == "SIGKILL" and end is None and inwin and inwin[-1]["unfinished"] and inwin[-1]["name"] == name and inwin[-1]["ord"] == ordinal:
        return inwin[-1]
    return None


def _short(c):
    """Was this write-like call a short write (returned fewer bytes than requested)?"""
    m = re.search(r",\s*(\d+)\)\s*=\s*(\d+)\s*$", c["text"])
    return bool(m and int(m.group(2)) < int(m.group(1)))


def describe_state(state, size, sc):
    if state == "absent":
        return "absent"
    if state == "old":
        return "previous content"
    if state == "new-complete":
        return "complete new archive"
    return f"neither previous content nor a complete archive ({size} bytes; previous {sc.get('old_size')} bytes, complete new {sc['size_new']} bytes)"


def judge(sc, st, state):
    """Returns the violated clause or None."""
    had_old = bool(sc["old"])
    allowed_state = state == "new-complete" or (state == "old" and had_old) or (state == "absent" and not had_old)
    unchanged = (state == "old") if had_old else (state == "absent")
    # (SFileCreateArchive = build + open of the result: it can report failure after a *completed* build - the open failed -, which
    # leaves the complete new archive behind; the statement's "a build that returns an error" is the build, so for the C-API
    # scenarios only the two-state clause and "success means complete" are judged)
    # (the same holds for OpenOptions::create = build + open and for rebuild_archive with verify = build + verification; rebuild_archive
    # without verify ends with the build, so its error is the build's)
    if st == "BUILD-ERR" and sc.get("strict_err") and not unchanged:
        return "build-err-but-dest-changed"
    if st == "BUILD-OK" and state != "new-complete":
        return "build-ok-but-dest-incomplete"
    if not allowed_state:
        return "dest-vanished" if state == "absent" else "dest-partial"
    return None


# ------------------------------------------------------------------------------------------- planning

def inject_points(sc, tier, seed):
    """Every call of the window x every mode (both tiers: a scenario has 4-60 calls, one run costs ~30 ms)."""
    pts = []
    keep = quick_ks(sc, seed) if tier != "thorough" and sc["family"] not in ORIGINAL_FAMILIES else None
    for c in sc["window"]:
        if keep is not None and c["k"] not in keep:
            continue
        for mode in MODES:
            pts.append({"kind": "inject", "k": c["k"], "name": c["name"], "ord": c["ord"], "target": c["target"], "mode": mode})
    return pts


def sequence_points(sc, r, tier, seed):
    """Fault sequences built on a fired error-mode run r: every later call of r's own window (the error path: unlink of the temp file, close, …)
    is killed / failed in turn.  strace keeps one injection rule per syscall, so a second fault on the same syscall name cannot be expressed and is left out
    (counted).  quick: the first and the last such call; thorough: all of them."""
    pt = r["point"]
    after = [c for c in r.get("after", [])]
    usable = [c for c in after if c["name"] != pt["name"]]
    skipped = len(after) - len(usable)
    if tier != "thorough" and len(usable) > 2:
        usable = [usable[0], usable[-1]]
    if tier != "thorough" and sc["family"] not in ORIGINAL_FAMILIES and pt["mode"] != "ENOSPC":
        # (later legs, quick: the error paths are entered once per k - through ENOSPC -, not once per errno)
        usable = []
    pts = []
    for c in usable:
        for mode2 in ("kill", "EIO"):
            pts.append({"kind": "inject2", "k": pt["k"], "name": pt["name"], "ord": pt["ord"], "target": pt["target"], "mode1": pt["mode"],
                        "name2": c["name"], "ord2": c["ord"], "target2": c["target"], "mode2": mode2, "mode": f"{pt['mode']}+{mode2}"})
    return pts, skipped


def fsize_limits(sc, tier):
    size = sc["size_new"]
    named = [0, 1, 31, 32, 33, HEADER_SIZE[sc["ver"]], size - 1]
    step = 1 if tier == "thorough" else 64
    grid = list(range(step, size, step))
    named = [x for x in named if 0 <= x < size]
    if tier == "thorough":
        lim = sorted(set(named + grid))
    else:
        lim = sorted(set(named))
        want = 16 - len(lim)
        cand = [g for g in grid if g not in lim]
        if cand and want > 0:
            pick = [cand[(j * len(cand)) // want] for j in range(min(want, len(cand)))]
            lim = sorted(set(lim + pick))
    return lim


def fsize_points(sc, tier):
    if sc.get("base", sc["name"]).endswith("-pending"):
        # a file-size limit cannot be scoped to the window: it would already hit the session's set-up writes before compact
        return []
    return [{"kind": "fsize", "limit": L, "mode": m} for L in fsize_limits(sc, tier) for m in ("fsize-ign", "fsize-kill")]


# ---------------------------------------------------------------------------------------------- main

def run(tier, seed, scratch, t0):
    for tool in ("strace", "prlimit", "env"):
        if not shutil.which(tool):
            raise sup.Broken(f"{tool} not found")
    binpath = sup.build("vh-mpq", "c12")
    ctx = Ctx(binpath, seed, scratch, ffi_bin=sup.build("vh-ffi", "c12_ffi"))
    res = sup.Result(PROP)
    names = all_scenarios()
    with ThreadPoolExecutor(max_workers=sup.NCPU) as ex:
        prepared = list(ex.map(lambda n: prepare(ctx, n), names))
    scen = {}
    scen_ev = {}
    for sc in prepared:
        if sc.get("failed"):
            res.add_inconclusive("scenario-baseline-failed")
            res.notes.append(f"{sc['name']}: {sc['failed']}")
            scen_ev[sc["name"]] = {"failed": sc["failed"]}
            continue
        scen[sc["name"]] = sc
    jobs = []
    for name in names:
        sc = scen.get(name)
        if not sc:
            continue
        ip = inject_points(sc, tier, seed)
        fp = fsize_points(sc, tier)
        calls = {}
        for c in sc["window"]:
            kk = f"{c['name']}@{c['target']}"
            calls[kk] = calls.get(kk, 0) + 1
        scen_ev[name] = {"N": sc["N"], "calls_in_window": calls, "archive_size": sc["size_new"], "old_size": sc.get("old_size"), "setup_variant": sc["variant"],
                         "k_executed": sorted({p["k"] for p in ip}), "size_limits_executed": sorted({p["limit"] for p in fp}),
                         "calls_before_window": sc["prefix_calls"], "baseline_leftovers": sc["baseline_leftovers"]}
        if sc.get("setup_notes"):
            res.notes.append(f"{name}: set-up fell back to variant {sc['variant']} ({'; '.join(sc['setup_notes'])})")
        jobs += [(sc, p) for p in ip + fp]
    sup.log(f"[C12] {len(scen)} scenarios, {len(jobs)} faulted runs ({time.time()-t0:.1f}s)")
    with ThreadPoolExecutor(max_workers=sup.NCPU) as ex:
        results = list(ex.map(lambda j: run_point(ctx, j[0], j[1]), jobs))
    # fault sequences (second phase): planned from the first-phase runs' own logs
    jobs2, same_name_skipped = [], 0
    for r in results:
        # only runs that held are extended: where the first fault alone already violates, a second fault has nothing to add
        if r["point"]["kind"] == "inject" and r["point"]["mode"] != "kill" and r.get("fired") and r.get("after") and r["verdict"] == "held":
            pts, sk = sequence_points(scen[r["scenario"]], r, tier, seed)
            same_name_skipped += sk
            jobs2 += [(scen[r["scenario"]], p) for p in pts]
    sup.log(f"[C12] {len(jobs2)} fault-sequence runs ({time.time()-t0:.1f}s)")
    with ThreadPoolExecutor(max_workers=sup.NCPU) as ex:
        results += list(ex.map(lambda j: run_point(ctx, j[0], j[1]), jobs2))
    res.add_counter("sequence_second_fault_same_syscall_not_expressible", same_name_skipped)
    fired_by_sc = {}
    for r in results:
        absorb(res, r, tier, seed)
        if r.get("fired"):
            fired_by_sc[r["scenario"]] = fired_by_sc.get(r["scenario"], 0) + 1
    for n, v in scen_ev.items():
        if "N" in v:
            v["points_fired"] = fired_by_sc.get(n, 0)
    concurrent_stage(ctx, res, tier, seed, scratch)
    rodir_stage(ctx, res, scen, tier, seed, scratch)
    cli_stage(ctx, res, scen, tier, seed, scratch)
    res.add_counter("scenarios_run", len(scen))
    res.add_counter("verify_processes_run", len(ctx.verify_cache))
    extra = {"scenarios": scen_ev, "set": SET, "modes": MODES + ["fsize-ign", "fsize-kill"] + [f"{a}+{b}" for a in ("ENOSPC", "EIO") for b in ("kill", "EIO")]}
    full = tier == "thorough"
    return sup.finish(res, tier, seed, "fault_enumeration", RULE, t0, assumptions=ASSUME, min_cases=100, extra_cov=extra,
                      exhaustive=bool(full and not res.verdicts.get("inconc")))


def absorb(res, r, tier, seed):
    pt = r["point"]
    mode = pt["mode"]
    res.cases += 1
    v = r["verdict"]
    res.add_counter(f"points_executed|{mode}", 1)
    if pt["kind"] == "fsize":
        res.add_counter("size_limit_runs", 1)
    fam = sc_fields(r["scenario"])["family"]
    res.add_counter(f"leg_points_executed|{fam}", 1)
    if r.get("fired"):
        res.add_counter(f"points_fired|{mode}", 1)
        res.add_counter(f"fired_at|{r['syscall']}", 1)
        res.add_counter(f"leg_points_fired|{fam}", 1)
        if r["syscall"].split("@")[0] in READS:
            res.add_counter("read_faults_fired", 1)
        if r["syscall"].endswith("@source"):
            res.add_counter("faults_fired_on_a_source_of_the_operation", 1)
            res.add_counter(f"source_fault_outcome|{r.get('status')}|{r.get('dest_state')}", 1)
        if r.get("short_write"):
            res.add_counter("genuine_short_writes_observed", 1)
    if "dest_state" in r:
        o = {"old": "old", "absent": "absent", "new-complete": "new-complete"}.get(r["dest_state"], "violation")
        if v == "viol":
            o = "violation"
        res.add_counter(f"outcome|{o}", 1)
        res.add_counter(f"status|{r.get('status')}", 1)
        if r.get("status") == "BUILD-ERR" and r["scenario"].startswith("compact") and r["dest_state"] == "new-complete":
            res.add_counter("compact_err_after_commit", 1)
        if r.get("status") == "BUILD-ERR" and not r["scenario"].startswith("compact") and r["dest_state"] == "new-complete" and v != "viol":
            res.add_counter(f"err_after_commit|{fam}", 1)
    n_tmp = len([x for x in r.get("leftovers", []) if x.startswith(".tmp")])
    if n_tmp:
        res.add_counter("runs_with_leftover_tmp", 1)
        res.add_counter("leftover_tmp_files", n_tmp)
    other = [x for x in r.get("leftovers", []) if not x.startswith(".tmp")]
    if other:
        res.add_counter("leftover_other_files", len(other))
    where = {"inject": lambda: "k%d" % pt["k"], "inject2": lambda: "k%d+%s#%d" % (pt["k"], pt["name2"], pt["ord2"]), "fsize": lambda: "L%d" % pt["limit"]}[pt["kind"]]()
    key = f"{r['scenario']}|{where}|{mode}"
    if v == "viol":
        res.verdicts["viol"] += 1
        if r.get("fired"):
            res.classes.add(key)
        rp = {"property": PROP, "tier": tier, "seed": int(seed), "scenario": r["scenario"], "point": pt}
        res.add_violation(r["sig"], r["what"], r["detail"], rp)
    elif v == "inconc":
        res.add_inconclusive(r["why"])
    else:
        res.verdicts["held"] += 1
        res.classes.add(key)
        # samples: one per (mode, outcome) pair, up to 6
        sk = (mode, r["dest_state"])
        seen = res.__dict__.setdefault("_c12_sample_keys", [])
        if sk not in seen and len(res.samples) < 6:
            seen.append(sk)
            res.samples.append({"scenario": r["scenario"], "point": pt, "fault_at": r.get("at"), "worker_status": f"{r['status']} {r['msg']}".strip(),
                                "dest_afterwards": r["dest_state"], "leftovers": r.get("leftovers")})


def replay(rp, scratch):
    """Re-execute exactly the recorded (scenario, k, mode) or (scenario, size limit, mode) point."""
    r = rp["replay"]
    binpath = sup.build("vh-mpq", "c12")
    ctx = Ctx(binpath, r["seed"], scratch, ffi_bin=sup.build("vh-ffi", "c12_ffi"))
    if r.get("point", {}).get("kind") in ("concurrent", "rodir", "cli"):
        # these stages are re-run whole (interleavings are not replayable one by one; the unprivileged runs are few)
        res = sup.Result(PROP)
        if r["point"]["kind"] == "concurrent":
            concurrent_stage(ctx, res, r["tier"], r["seed"], scratch)
        elif r["point"]["kind"] == "cli":
            sc = prepare(ctx, "build-v1-present-small")
            cli_stage(ctx, res, {} if sc.get("failed") else {"build-v1-present-small": sc}, r["tier"], r["seed"], scratch)
        else:
            scen = {}
            for n in ("build-v1-present-small", "build-v2-present-big", "build-v4-present-small", "build-v3-present-big"):
                sc = prepare(ctx, n)
                if not sc.get("failed"):
                    scen[n] = sc
            rodir_stage(ctx, res, scen, r["tier"], r["seed"], scratch)
        print(f"REPLAY stage={r['point']['kind']} runs={res.cases} counters={json.dumps(res.counters)}")
        hit = False
        for sig, w in res.violations.items():
            print(f"REPLAY violation sig={sig} what={str(w['what'])[:400]}")
            hit = hit or sig == rp.get("signature")
        if hit:
            print(f"VIOLATION property={PROP} replay=(reproduced) signature={rp.get('signature')}")
            return sup.EXIT_VIOLATION
        print("REPLAY did not reproduce the recorded signature")
        return sup.EXIT_HELD
    sc = prepare(ctx, r["scenario"])
    if sc.get("failed"):
        print(f"REPLAY scenario {r['scenario']} could not be prepared: {sc['failed']}")
        return sup.EXIT_BROKEN
    pt = dict(r["point"])
    if pt["kind"] in ("inject", "inject2"):
        # k is re-resolved against the current baseline window (name/ordinal are a function of the tree being replayed)
        w = [c for c in sc["window"] if c["k"] == pt["k"]]
        if not w:
            print(f"REPLAY k={pt['k']} is outside the current window (N={sc['N']})")
            return sup.EXIT_HELD
        if (w[0]["name"], w[0]["ord"]) != (pt.get("name"), pt.get("ord")):
            print(f"REPLAY note: call at k={pt['k']} is now {w[0]['name']}#{w[0]['ord']} (recorded {pt.get('name')}#{pt.get('ord')})")
        pt["name"], pt["ord"], pt["target"] = w[0]["name"], w[0]["ord"], w[0]["target"]
    out = run_point(ctx, sc, pt)
    print(f"REPLAY scenario={r['scenario']} point={json.dumps(pt)} N={sc['N']} fired={out.get('fired')} at={out.get('at')}")
    print(f"REPLAY worker_status={out.get('status')} {out.get('msg')} dest_afterwards={out.get('dest_state')} leftovers={out.get('leftovers')} verdict={out['verdict']}")
    if out["verdict"] == "viol":
        print(f"REPLAY violation sig={out['sig']} what={out['what'][:400]}")
        if out["sig"] == rp.get("signature"):
            print(f"VIOLATION property={PROP} replay=(reproduced) signature={out['sig']}")
        else:
            print(f"VIOLATION property={PROP} replay=(different signature) signature={out['sig']}")
        return sup.EXIT_VIOLATION
    print("REPLAY did not reproduce the recorded signature")
    return sup.EXIT_HELD
