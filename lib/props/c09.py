"""C09 — parallel extraction is observationally identical to sequential reading (DESIGN.md §6 C09).

Layers:
  native  vh-mpq/c09   every configuration, repeated under seeded task delays and CPU contention
  TSan    the same worker over a slice of the configurations (thorough only); a TSan build that fails
          makes that slice inconclusive, never a violation.
The worker itself runs rayon pools with up to 32 threads plus 4 busy "stress" threads, so only 4 worker
processes run at once (4 x 4 busy threads keep the 16 cores loaded while the pools compete for them).
"""
import os
import re

import sup

PROP = "C09"
NSHARDS = 4

RULE = ("one case = one configuration: interface (extract_with_config; ParallelArchive::{extract_files_parallel, extract_files_batched, extract_matching_parallel, "
        "process_files_parallel}; parallel::{extract_from_multiple_archives, extract_multiple_from_multiple_archives, search_in_multiple_archives, process_archives_parallel}) "
        "x archive (S: ~40 files none/zlib/bzip2, multi-sector, zero-length, encrypted; M: 1300 files; L: 5200 files in thorough; P0..P5 small archives for the multi-archive helpers) "
        "x threads {1,2,3,7,16,32,library default} x batch size {1,2,9,10,11,N-1,N,N+1} x request shape (empty, single, one name 2x/17x, two names alternating, every name twice in a "
        "row, 64 draws from three names, all, reversed, shuffled, 39/41 around batch multiples, case-variant spellings, 999/1000/1001/1300/5001(/5200) names, a never-added name at "
        "first/middle/last/every/every-other/three positions, at each of the 12 positions of a 12-name request in turn, on either side of the first and last batch boundary of a "
        "1001-name request) x skip_errors. quick takes the full product for the <=1000-name interfaces on S, rotates the thread axis elsewhere and "
        "gives the 5001-name requests every other batch size; thorough takes full products except on L (three of six thread counts per batch x skip, rotating). Every configuration "
        "is executed r times (quick 3; thorough 25, 8 for requests of 999..5000 names, 4 above 5000): repeat 0 without injected delays, the others with a different "
        "trace_start(delay_seed) (seeded 0-200 us sleep before each task) while 4 busy threads per worker load the cores. Oracle per call: a sequential baseline read once per "
        "archive through one plain Archive handle (Archive::read_file; never-added names are read sequentially too and yield FileNotFound): result length == request length; slot i's "
        "name == request[i]; slot i's payload == baseline (bytes equal, or the same error variant); with skip_errors a failing name is an Err in its own slot and all other slots are "
        "still right; without it (and for the interfaces that have no such option) the whole call is Err iff some requested name fails; all r repeats return the identical result. "
        "Further archives: V2 / V3 / V4 built with sector checksums + (attributes) and 512-byte or 4 KiB sectors, V4 with 64 KiB sectors (every single-archive interface, both "
        "extract_with_config paths). Thread axis of extract_with_config also num_threads = Some(0) (rayon's 'automatic') on the <=1000, >1000 and >5000 paths. "
        "read_file_with_new_handle called directly by 2-16 std threads sharing one Arc<ParallelArchive> (own or identical lists with duplicates and never-added names; every read "
        "compared with the baseline). extract_with_config called by two user threads at once on one path with different configurations built with the setters "
        "threads()/batch_size()/skip_errors(). "
        "async feature slice (AsyncArchiveReader over a tokio file, reference = the same range of the bytes written): extract_files_concurrent on readable ranges; one range that "
        "fails on its own (reaching past the end of the file, or above max_decompressed_size of a reader made by with_security_limits) at each position: the call fails as a whole, "
        "every request alone answers as expected and the reader answers the readable ones afterwards; more than 2 x max_concurrent_extractions requests: refused as a whole or "
        "answered completely, then exactly 2 x max answered; 3-24 concurrent read_at / read_exact_at tasks with max_concurrent_ops in {1,2,4,10}; operation_timeout in {20 s, 30 s, 1 h}; "
        "one reader shared by 2-4 OS threads with a current-thread runtime each. "
        "distinct = distinct configuration strings among executed cases with a non-empty request.")

ASSUME = [
    "the sequential baseline is Archive::read_file on the same archive file (the statement's 'what a sequential read of that name returns'); whether that equals the bytes given to "
    "the builder is C01's subject and only tallied here (baseline_files_*)",
    "extract_matching_parallel has no request list: its request is taken to be the cached list_files() filtered by the predicate, in list order; list_files() is compared with a "
    "sequential Archive::list() as a set",
    "process_files_parallel / process_archives_parallel: the harness' processor returns (name, bytes) / (path, content hash, length, list length); slot i must equal the processor applied "
    "sequentially to request[i]; process_files_parallel's processor additionally checks that it is handed the baseline bytes of the name it is told",
    "search_in_multiple_archives documents 'returns the archives that contain matching files': entries with an empty match list are neither demanded nor forbidden; the archives with "
    "matches must appear in request order with exactly the names of a sequential list()+contains(), compared as sets",
    "extract_multiple_from_multiple_archives: outer entries in archive order, inner entries in name order, every (archive, name) payload equal to the baseline; a name missing from any "
    "archive fails the call",
    "when a call fails as a whole, which of several failing names the error mentions is not compared (rayon returns whichever error it saw); only 'the call is Err' is demanded",
    "thread counts for the interfaces without a thread parameter are set by running them inside a rayon pool of that size built by the harness (the way the library's own "
    "extract_with_config does it); 'default' = the pool the library picks itself",
    "batch size 0 is not driven (the statement quantifies 1..N); PKWare and highly repetitive large contents are not used (known findings of C01/C03 would intrude)",
    "parallel::{extract_from_multiple_archives, extract_multiple_from_multiple_archives, search_in_multiple_archives} carry no task hook: their schedules are perturbed only by "
    "archive size asymmetry and CPU contention and are not observed (counter multi_thread_configs_without_trace_hook); process_archives_parallel is traced through the harness' processor",
    "TSan layer: reports whose stack contains a crossbeam_epoch frame are suppressed (fence-based reclamation inside rayon's dependency, invisible to ThreadSanitizer) and "
    "counted in layers.tsan.reports_suppressed_inside_crossbeam_epoch; any other report is a violation",
    "a multi-thread configuration whose repeats all showed one schedule is counted under no_schedule_diversity: held for the input quantifier, inconclusive for the schedule quantifier",
    "num_threads = Some(0) is taken as a member of the thread-count axis: the library hands the value to rayon, where 0 means 'choose automatically', so the call is the same request "
    "as with None",
    "read_file_with_new_handle walked name by name is judged like a call with error skipping (one slot per name, a failing name is an Err of the same variant in its own slot)",
    "async slice: a request whose size is above the reader's max_decompressed_size counts as failing on its own (documented refusal); a call with more than "
    "2 x max_concurrent_extractions requests may be refused as a whole (documented) — only a partial or wrong answer is a violation there; read_at may deliver fewer bytes than the "
    "buffer holds but never 0 while bytes remain, and never fails for a range past the end; tokio's multi-thread runtime is not among the harness crate's tokio features, real "
    "overlap comes from OS threads with a current-thread runtime each sharing one reader; operation_timeout is only set to values far above any run time (a timeout that bites "
    "would make results depend on machine load by design)",
]

TSAN_RE = re.compile(r"WARNING: ThreadSanitizer: ([^\(\n]+)")


def _schedule_table(counters):
    """sched|<api>|<path>|<thread range>|<what> counters -> nested table; removed from the flat counter list."""
    table = {}
    for k in list(counters.keys()):
        if not k.startswith("sched|"):
            continue
        _, api, path, tr, what = k.split("|")
        table.setdefault(f"{api}|{path}|{tr}", {})[what] = counters.pop(k)
    for row in table.values():
        row.setdefault("no_schedule_diversity", 0)
    return dict(sorted(table.items()))


def _tsan_summaries(scratch):
    """(kind, function) of every unsuppressed report, from the SUMMARY lines in the TSan shards' stderr files."""
    found = []
    for name in sorted(os.listdir(scratch)):
        if not name.startswith("stderr-tsan"):
            continue
        try:
            text = open(os.path.join(scratch, name), errors="replace").read()
        except OSError:
            continue
        for m in re.finditer(r"^SUMMARY: ThreadSanitizer: (.+?) (\S+) in (.+)$", text, re.M):
            kind = m.group(1).strip().replace(" ", "-")
            fn = re.sub(r"::h[0-9a-f]{16}$", "", m.group(3).strip())
            fn = re.sub(r"(?<=\w)<[^>]*>", "", fn)      # generic arguments out, `<Type>::method` kept
            fn = re.sub(r"::<[^>]*>", "", fn)
            fn = re.sub(r"\{closure[^}]*\}", "{closure}", fn)
            if (kind, fn) not in found:
                found.append((kind, fn))
    return found


def _rekey_tsan(layer, scratch):
    """A TSan report ends the worker with exit 66; the supervisor files that as crash|tsan-report|?. Name it after the
    report kind and the function in the SUMMARY line instead (function names, no line numbers)."""
    summaries = _tsan_summaries(scratch)
    for sig in list(layer.violations.keys()):
        if not sig.startswith("crash|"):
            continue
        w = layer.violations.pop(sig)
        n = layer.viol_counts.pop(sig)
        if "tsan-report" in sig:
            for kind, fn in summaries or [("report", "?")]:
                new = f"tsan|{kind}|{fn}"
                if new not in layer.violations:
                    layer.violations[new] = dict(w, sig=new, what=f"[tsan] ThreadSanitizer: {kind} in {fn}; {w['what']}")
                layer.viol_counts[new] = layer.viol_counts.get(new, 0) + n
        else:
            new = "tsan-layer-" + sig
            layer.violations[new] = dict(w, sig=new, what="[tsan layer] " + w["what"])
            layer.viol_counts[new] = layer.viol_counts.get(new, 0) + n


def _merge_violations(dst, src):
    for sig, w in src.violations.items():
        if sig in dst.violations:
            dst.viol_counts[sig] += src.viol_counts[sig]
        else:
            dst.violations[sig] = w
            dst.viol_counts[sig] = src.viol_counts[sig]
    for k, n in src.inconclusive_reasons.items():
        dst.inconclusive_reasons[k] = dst.inconclusive_reasons.get(k, 0) + n
        dst.verdicts["inconc"] += n
    dst.notes.extend(src.notes)
    dst.crashes += src.crashes


def run(tier, seed, scratch, t0):
    thorough = tier == "thorough"
    res = sup.Result(PROP)
    binpath = sup.build("vh-mpq", "c09")
    sup.run_workers(res, binpath, [], tier, seed, scratch, nshards=NSHARDS, case_timeout=300 if thorough else 120,
                    total_timeout=3400 if thorough else 600)
    layers = {"native": {"cases": res.cases, "calls": res.counters.get("calls", 0), "worker_processes": NSHARDS, "stress_threads_per_worker": 4}}

    if thorough:
        tsan = {"built": False}
        try:
            tbin = sup.build("vh-mpq", "c09", flavor="tsan")
            tsan["built"] = True
        except sup.Broken as ex:
            res.add_inconclusive("tsan-build-failed")
            res.notes.append(str(ex)[-600:])
            tbin = None
        if tbin:
            rs = sup.Result(PROP)
            args = ["--stride", "8", "--repeats", "3", "--repeats-light", "2", "--repeats-heavy", "2", "--stress", "2"]
            # crossbeam-epoch (under rayon's work-stealing deques) orders memory reclamation with atomic fences, which
            # ThreadSanitizer does not model: it reports free() in Global::collect against epoch-internal loads by another
            # worker, both stacks entirely inside crossbeam_epoch (triaged on 11 reports: no frame of wow_mpq or of the
            # harness on either access stack). Reports with a crossbeam_epoch frame are suppressed and counted; every
            # other report halts the worker and is a violation.
            supp = os.path.join(scratch, "tsan.supp")
            with open(supp, "w") as f:
                f.write("race:crossbeam_epoch\n")
            env = {"TSAN_OPTIONS": f"halt_on_error=1:second_deadlock_stack=1:suppressions={supp}:print_suppressions=1"}
            sup.run_workers(rs, tbin, args, tier, seed, scratch, nshards=NSHARDS, case_timeout=900, label="tsan", env_extra=env,
                            total_timeout=2400, confirm_hang=False)
            reports = suppressed = 0
            for name in sorted(os.listdir(scratch)):
                if name.startswith("stderr-tsan"):
                    try:
                        text = open(os.path.join(scratch, name), errors="replace").read()
                    except OSError:
                        continue
                    reports += len(TSAN_RE.findall(text))
                    suppressed += sum(int(n) for n in re.findall(r"^\s*(\d+) race:crossbeam_epoch", text, re.M))
            _rekey_tsan(rs, scratch)
            tsan.update({"cases": rs.cases, "calls": rs.counters.get("calls", 0), "slots_compared": rs.counters.get("slots_compared", 0),
                         "report_blocks": reports, "reports_suppressed_inside_crossbeam_epoch": suppressed, "verdicts": dict(rs.verdicts), "slice": "every configuration with mix(idx) % 8 == 0; 3 repeats (2 for requests of >= 999 names)",
                         "max_concurrent_tasks": rs.extras.get("max_concurrent_tasks", 0)})
            if rs.cases == 0:
                res.add_inconclusive("tsan-layer-ran-nothing")
            _merge_violations(res, rs)
        layers["tsan"] = tsan

    # ---- slice for the non-default `async` feature: AsyncArchiveReader::extract_files_concurrent over a real tokio file
    asl = {"built": False}
    try:
        abin = sup.build("vh-mpq", "c09_async", features="async")
        asl["built"] = True
    except sup.Broken as ex:
        res.add_inconclusive("async-slice-not-built")
        res.notes.append(str(ex)[-400:])
        abin = None
    if abin:
        ra = sup.Result("C09")
        sup.run_workers(ra, abin, [], tier, seed, scratch, nshards=4, case_timeout=300, label="async-")
        asl.update({"cases": ra.cases, "calls": ra.counters.get("async_calls", 0), "slots_compared": ra.counters.get("async_slots_compared", 0), "verdicts": dict(ra.verdicts)})
        res.cases += ra.cases
        res.classes |= ra.classes
        for k in sorted(ra.counters):
            if k.startswith("async_"):
                res.add_counter(k, ra.counters[k])
        for k, v in ra.verdicts.items():
            if k != "viol":
                res.verdicts[k] = res.verdicts.get(k, 0) + v
        _merge_violations(res, ra)
    layers["async_feature_slice"] = asl

    c = res.counters
    table = _schedule_table(c)
    per_api = {k.split("|", 1)[1]: c.pop(k) for k in list(c.keys()) if k.startswith("calls|")}
    wall_ms = {k.split("|", 1)[1]: c.pop(k) for k in list(c.keys()) if k.startswith("wall_ms|")}
    extra = {
        "layers": layers,
        "calls_by_interface_and_path": dict(sorted(per_api.items())),
        "worker_wall_ms_by_interface_and_path": dict(sorted(wall_ms.items())),
        "schedule_diversity_by_configuration_class": table,
        "schedule_summary": {
            "multi_thread_multi_task_configs": c.get("multi_thread_multi_task_configs", 0),
            "configs_with_schedule_diversity": c.get("configs_with_schedule_diversity", 0),
            "no_schedule_diversity": c.get("no_schedule_diversity", 0),
            "multi_thread_configs_without_trace_hook": c.get("multi_thread_configs_without_trace_hook", 0),
            "distinct_completion_orders_summed_over_configs": c.get("distinct_completion_orders", 0),
            "distinct_thread_assignments_summed_over_configs": c.get("distinct_thread_assignments", 0),
            "distinct_schedules_summed_over_configs": c.get("distinct_schedules", 0),
            "max_concurrent_tasks": res.extras.get("max_concurrent_tasks", 0),
        },
    }
    if c.get("no_schedule_diversity", 0):
        res.notes.append(f"{c['no_schedule_diversity']} multi-thread configuration(s) showed one schedule in every repeat: inconclusive for the schedule quantifier, held for the input quantifier")
    # a run that traced nothing or compared nothing is broken, not a pass
    if c.get("slots_compared", 0) == 0 or c.get("task_events", 0) == 0 or c.get("configs_with_schedule_diversity", 0) == 0:
        raise sup.Broken(f"nothing observed: slots_compared={c.get('slots_compared', 0)} task_events={c.get('task_events', 0)} "
                         f"configs_with_schedule_diversity={c.get('configs_with_schedule_diversity', 0)}")
    return sup.finish(res, tier, seed, "exploration", RULE, t0, assumptions=ASSUME, min_cases=2000 if thorough else 500, extra_cov=extra)


def replay(rp, scratch):
    return sup.generic_replay(rp, scratch, "vh-mpq", features="async" if rp["replay"].get("bin") == "c09_async" else None)
